#!/bin/bash
# Offline setup: nothing to build (pure Python harness); verify the interpreter and imports are there.
set -e
cd "$(dirname "$0")"
mkdir -p evidence replays
PYTHONPATH=/repo/src:$PWD PYTHONWARNINGS=ignore /venv/bin/python -c "import krrood, sqlalchemy, rustworkx; import mc.core; print('setup ok')"
