#!/bin/bash
# usage: confirm_seed.sh <dir-with-patch.diff-and-demo.py> <seed-id> <property> <check ids...>
# Confirms a seeded change against the CURRENT /repo: patch applies, the pinned tests still pass with it, demo.py fails
# with it and passes without it; then runs the named checks with the patch applied. /repo is restored afterwards.
src=$1; sid=$2; prop=$3; shift 3
out=/verif/seeded/$sid; mkdir -p $out
if [ "$src" != "$out" ]; then
  if [ -d "$src/.git" ] || [ -f "$src/.git" ]; then git -C $src diff -- src > $out/patch.diff; else cp $src/patch.diff $out/patch.diff; fi
  cp $src/demo.py $out/demo.py
fi
cd /repo
[ -z "$(git status --porcelain)" ] || { echo "/repo is dirty"; exit 2; }
git apply $out/patch.diff || { echo "PATCH DOES NOT APPLY to current /repo"; exit 2; }
echo "== tests with change"
tests=$(PYTHONPATH=/repo/src /venv/bin/python -m pytest -q -p no:cacheprovider --timeout=900 -q 2>&1 | tail -1); echo "$tests"
echo "== demo with change"
PYTHONPATH=/repo/src PYTHONWARNINGS=ignore /venv/bin/python $out/demo.py > $out/.demo_with 2>&1; dw=$?; tail -3 $out/.demo_with | cut -c1-300; echo "exit=$dw"
results=""
for c in "$@"; do
  cd /verif; ./check $c --tier quick > $out/.check_$c 2>&1; rc=$?
  echo "== check $c exit=$rc"; grep -m2 -A2 VIOLATION $out/.check_$c | cut -c1-300
  results="$results\"$c\": $rc, "
done
git -C /repo checkout -- .
echo "== demo without change"
PYTHONPATH=/repo/src PYTHONWARNINGS=ignore /venv/bin/python $out/demo.py > $out/.demo_without 2>&1; dwo=$?; tail -2 $out/.demo_without | cut -c1-300; echo "exit=$dwo"
cd /verif; git checkout -- evidence 2>/dev/null
needs=$(grep -o '"needs_to_manifest": "[^"]*"' $out/meta.json 2>/dev/null | sed 's/"needs_to_manifest": //')
[ -z "$needs" ] && needs='"TODO"'
cat > $out/meta.json <<EOM
{
 "seed_id": "$sid",
 "property": "$prop",
 "base_commit": "$(git -C /repo rev-parse --short HEAD)",
 "tests_with_change": "$tests",
 "demo_exit_with_change": $dw,
 "demo_exit_without_change": $dwo,
 "check_exit_codes": { ${results%, } },
 "needs_to_manifest": $needs,
 "ran": "git -C /repo apply patch.diff; pinned pytest suite; demo.py; ./check <ids> --tier quick; git -C /repo checkout -- .; demo.py again"
}
EOM
rm -f $out/.demo_with $out/.demo_without
echo "stored in $out"
