#!/venv/bin/python
"""Regenerates /verif/MANIFEST.json from the table below (single source of truth for the interface file)."""
import json
import os
import subprocess

VERIF = os.path.dirname(os.path.dirname(os.path.abspath(__file__)))

ALL = [f"C{i:02d}" for i in range(1, 21)]

# id -> (level, technique, text, note, design_ref)
CLAIMED = {
    "C09": ("model_checking",
            "explicit-state enumeration of the result-count automaton on the real iterator, stepped with next()",
            "Every (query shape, number of solutions n, constraint) triple within the bounds is executed on the real "
            "engine one next() at a time and compared with a reference automaton after every step; the space is "
            "finite and visited completely, so within the bounds no off-by-one in Exactly/AtLeast/AtMost/Range/the "
            "can survive. The same quantified query object is also evaluated again after j steps of a first evaluation that is "
            "closed, dropped or left open (every j): the second evaluation must follow the automaton from its initial state "
            "and an open first evaluation must continue as if alone.",
            "Bounds n<=6,k<=7 (quick) / n<=9,k<=10 (thorough); CPython 3.12; assumes behaviour for larger counts "
            "follows the same comparisons (the code has no other constants).",
            "DESIGN.md section 3 C09"),
}

NOT_YET = "check not built yet in this round (framework under construction); see DESIGN.md section 7 build order"

# merged in from tools/manifest_entries.py if present
try:
    from manifest_entries import ENTRIES  # type: ignore
    CLAIMED.update(ENTRIES)
except Exception:
    pass


def main():
    checks = []
    for pid in ALL:
        if pid not in CLAIMED:
            continue
        level, technique, text, note, ref = CLAIMED[pid]
        checks.append({
            "property_id": pid,
            "quick_cmd": f"./check {pid} --tier quick",
            "thorough_cmd": f"./check {pid} --tier thorough",
            "evidence_file": f"/verif/evidence/{pid}.json",
            "replay_cmd_template": f"./check {pid} --replay {{path}}",
            "engine": "krrood-bounded-explorer",
            "level_claimed": {"category": level, "text": text, "design_ref": ref},
            "level_note": note,
            "technique": technique,
        })
    man = {
        "version": 1,
        "setup_cmd": "./setup.sh",
        "hooks": {
            "guard": "KRROOD_VERIF",
            "enable": "no source hooks are needed: checks import krrood from /repo/src (PYTHONPATH) and observe "
                      "public API, harness-supplied objects and readable attributes; KRROOD_VERIF=1 is exported by "
                      "./check for any future guarded instrumentation",
            "baseline_off_cmd": "cd /repo && /venv/bin/python -m pytest -ra -q -p no:cacheprovider --timeout=900 "
                                "--continue-on-collection-errors",
            "source_commits": [],
            "add_only": True,
        },
        "engines": [{
            "name": "krrood-bounded-explorer",
            "path": "/verif/mc",
            "serves_properties": [c["property_id"] for c in checks],
            "kind_free_text": "hand-written stateless explorers for Python: size-bounded term enumeration, "
                              "depth-bounded operation-history exploration by replay, interleaving exploration of "
                              "cooperative iterators; every element executes the real krrood code and is compared "
                              "with a plain-Python reference model",
        }],
        "checks": checks,
        "notes": "All checks run the real implementation from /repo's working tree on every element of a bounded "
                 "space (see DESIGN.md). known_findings.json lists genuine defects that are recorded, not repaired.",
        "not_applicable": [{"property_id": pid, "reason": NOT_YET} for pid in ALL if pid not in CLAIMED],
    }
    path = os.path.join(VERIF, "MANIFEST.json")
    with open(path, "w") as f:
        json.dump(man, f, indent=1)
    code = ("import json,sys,jsonschema;"
            "jsonschema.validate(json.load(open(sys.argv[1])), json.load(open(sys.argv[2])))")
    subprocess.run(["python3-vt", "-c", code, path, os.path.join(VERIF, "schemas", "MANIFEST.schema.json")], check=True)
    print("MANIFEST.json written:", len(checks), "checks claimed")


if __name__ == "__main__":
    import sys
    sys.path.insert(0, os.path.dirname(os.path.abspath(__file__)))
    main()
