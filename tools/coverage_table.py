"""Print the markdown table of DESIGN.md section 8.2 from the committed evidence files (python3-vt or /venv python)."""
import glob
import json
import os

here = os.path.dirname(os.path.dirname(os.path.abspath(__file__)))
rows = []
for p in sorted(glob.glob(os.path.join(here, "evidence", "C*.json"))):
    e = json.load(open(p))
    c = e["coverage"]
    st = f"{c.get('states', 0):,} / {c.get('transitions', 0):,}".replace(",", " ") if c.get("states") else "-"
    known = sum((c.get("known_finding_cases") or {}).values())
    rows.append((e["property_id"], c["cases_done"], c["evaluations"], c["distinct_nontrivial"], st, known, e["wall_s"], c["exhaustive"]))
print("| id  | cases | executions of real code | distinct non-trivial | states / transitions | cases matching an open finding | wall | exhaustive |")
print("|-----|------:|------------------------:|---------------------:|---------------------|------:|-----:|:--:|")
for r in rows:
    print(f"| {r[0]} | {r[1]:,} | {r[2]:,} | {r[3]:,} | {r[4]} | {r[5]:,} | {r[6]:.0f} s | {'yes' if r[7] else 'NO'} |".replace(",", " "))
