#!/bin/bash
# usage: tools/run_all.sh [quick|thorough]  -- runs every registered check once and prints one line per check
cd "$(dirname "$0")/.."
tier=${1:-quick}
fail=0
for c in C01 C02 C03 C04 C05 C06 C07 C08 C09 C10 C11 C12 C13 C14 C15 C16 C17 C18 C19 C20; do
  out=$(./check $c --tier $tier 2>&1); rc=$?
  echo "$out" | grep -E "^C[0-9]+ tier=" | tail -1
  echo "$out" | grep -E "^VIOLATION|HARNESS-ERROR" | head -3
  [ $rc -ne 0 ] && fail=1
done
exit $fail
