#!/bin/bash
# usage: reconfirm_seed.sh <seeded id>
# Re-confirms one kept seed against /repo's current HEAD in a scratch worktree (never touches /repo's working tree):
# patch applies, pinned tests pass with it, demo fails with it / passes without it, and the checks named in
# meta.json's caught_by exit 1 with it. Prints one summary line; details in /tmp/reconfirm/<id>.log.
sid=$1; d=/verif/seeded/$sid
mkdir -p /tmp/reconfirm; log=/tmp/reconfirm/$sid.log; : > $log
wt=$(mktemp -d /tmp/wt_rc_XXXX); rmdir $wt
git -C /repo worktree add -q --detach $wt HEAD >> $log 2>&1 || { echo "$sid WORKTREE-FAILED"; exit 2; }
trap 'git -C /repo worktree remove --force '$wt' >/dev/null 2>&1; git -C /repo worktree prune' EXIT
PYTHONPATH=$wt/src PYTHONWARNINGS=ignore /venv/bin/python $d/demo.py >> $log 2>&1; dwo=$?
if ! git -C $wt apply $d/patch.diff >> $log 2>&1; then echo "$sid PATCH-DOES-NOT-APPLY demo_without=$dwo"; exit 1; fi
tests=$(cd $wt && PYTHONPATH=$wt/src /venv/bin/python -m pytest -q -p no:cacheprovider --timeout=900 -q 2>&1 | tail -1)
PYTHONPATH=$wt/src PYTHONWARNINGS=ignore /venv/bin/python $d/demo.py >> $log 2>&1; dw=$?
checks=$(/venv/bin/python -c "import json;print(' '.join(json.load(open('$d/meta.json')).get('caught_by',[])))")
res=""
for c in $checks; do
  (cd /verif && KRROOD_REPO=$wt ./check $c --tier quick --workers ${RC_WORKERS:-4} >> $log 2>&1); res="$res $c=$?"
done
echo "$sid demo_with=$dw demo_without=$dwo tests=[$(echo $tests | grep -o '[0-9]* failed, [0-9]* passed')] checks:$res"
