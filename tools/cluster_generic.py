"""usage: cluster_generic.py <check> <tier>  -- runs all cases and groups failures by (kind, module.cluster_key(case))"""
import sys, collections, multiprocessing as mp, importlib
sys.path.insert(0, '/verif')
mod = importlib.import_module('checks.' + sys.argv[1])
tier = sys.argv[2] if len(sys.argv) > 2 else 'quick'

def work(chunk):
    res = []
    for case in chunk:
        r = mod.run_case(case)
        for f in r.failures:
            sig = mod.classify(case, f) if hasattr(mod, 'classify') else None
            key = mod.cluster_key(case, f) if hasattr(mod, 'cluster_key') else ()
            res.append((f.kind, sig, key, f.detail[:500]))
    return res

if __name__ == "__main__":
    if hasattr(mod, "init_worker"): mod.init_worker()
    cases = mod.cases(tier, 0)
    CH = int(sys.argv[3]) if len(sys.argv) > 3 else 300
    chunks = [cases[i:i + CH] for i in range(0, len(cases), CH)]
    groups = collections.defaultdict(list)
    with mp.get_context("fork").Pool(16, maxtasksperchild=8) as pool:
        for res in pool.imap_unordered(work, chunks):
            for kind, sig, key, d in res:
                groups[(kind, sig, key)].append(d)
    for k, g in sorted(groups.items(), key=lambda kv: -len(kv[1])):
        g.sort(key=len)
        print(f"{len(g):6d} {k}\n        e.g. {g[0]}")
