#!/venv/bin/python
"""
usage: thorough_table.py <log>...   Prints DESIGN 8.7's table from the summary lines of thorough runs (the last line
`./check` prints); a later log overrides an earlier one for the same check.
"""
import re
import sys

rows = {}
known = {}
for path in sys.argv[1:]:
    cur_known = {}
    for line in open(path, errors="replace"):
        m = re.match(r"KNOWN-FINDING: property=(C\d\d) (C\d\d-F\d+)", line)
        if m:
            cur_known.setdefault(m.group(1), set()).add(m.group(2))
        m = re.match(r"(C\d\d) tier=thorough seed=\d+ cases=(\d+)/(\d+) evaluations=(\d+) nontrivial=(\d+) .*exhaustive=(\w+) "
                     r"wall=([\d.]+)s exit=(\d+)", line)
        if m:
            cid, done, total, ev, nt, exh, wall, ex = m.groups()
            rows[cid] = (int(done), int(total), int(ev), int(nt), exh, float(wall), ex)
            known[cid] = cur_known.get(cid, set())


def n(x):
    return f"{x:,}".replace(",", " ")


print("| id | cases | executions | distinct non-trivial | exhaustive | wall | exit |")
print("|----|------:|-----------:|---------------------:|:--:|-----:|:--:|")
for cid in sorted(rows):
    done, total, ev, nt, exh, wall, ex = rows[cid]
    cases = n(done) if done == total else f"{n(done)} of {n(total)}"
    print(f"| {cid} | {cases} | {n(ev)} | {n(nt)} | {'yes' if exh == 'True' else 'NO'} | {wall:.0f} s | {ex} |")
