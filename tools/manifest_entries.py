"""Per-property MANIFEST entries: id -> (level, technique, text, note, design_ref)."""
ENTRIES = {
    "C01": ("exploration",
            "bounded exhaustive enumeration of query terms x domain contents on the real engine vs a brute-force first-order evaluator",
            "Every EQL condition tree with <=3 (thorough: 4) leaves over a 5-atom alphabet, with every and_/or_ labelling and "
            "not_ above any node, plus one feature atom per vocabulary item of the statement in every <=2-leaf context, "
            "flatten and nested an/the sub-queries, is built through the public API and evaluated by the real engine "
            "over a family of domain contents (all valuations, a value-equal twin, every pair of sub-domains of a "
            "3-object universe incl. empty ones); the row SET is compared with an independent reference evaluator. "
            "Exhaustive inside the bounds, nothing sampled.",
            "Bounds as listed in evidence.bounds; objects by identity, scalars type-exact; recorded findings "
            "(known_findings.json) exclude: bool constants as conditions, empty domains never bound by short-circuit "
            "evaluation, exists/not for_all witness de-duplication. CPython 3.12.",
            "DESIGN.md section 3 C01"),
    "C02": ("exploration",
            "bounded exhaustive enumeration of the NNF conjunctive/else-if fragment, row multisets vs brute force; the()/Exactly(k) around the true count",
            "Every query of the fragment named by the property (atoms and negated atoms incl. Predicate subclasses and "
            "symbolic functions, and_, or_ only between operands over equal variable sets) with <=3 leaves over 2 variables "
            "and <=2 leaves over 3 variables (thorough: 4/3) x 5 selections x 4 domain contents runs on the real engine; "
            "the multiset of rows must equal the projection of all satisfying total assignments, and the()/"
            "an(Exactly(count-1|count|count+1)) must follow the true count.",
            "Row order not compared; bounds in evidence.bounds; CPython 3.12.",
            "DESIGN.md section 3 C02"),
    "C15": ("model_checking",
            "explicit enumeration of all ordered assertion sequences on the real descriptors, compared after every step with a reference fix-point closure",
            "All ordered sequences of <=4 (thorough 5) distinct sub-organisation assertions over 4 companies (every chain, "
            "diamond and cycle in every insertion order) and <=3 (thorough 4) assertions over the mixed universe "
            "(single-valued assignment, container assignment, append/add on works_for/member_of/members/head_of incl. a "
            "role) are executed on the real property descriptors from a fresh SymbolGraph; after every assertion the "
            "graph relations and every managed field must equal the least fix point of the declared semantics.",
            "Population 4 companies / 2 persons / 1 CEO; list fields compared as sets; histories with a single-valued "
            "conflict are outside the statement and excluded by the generator (counted in evidence features).",
            "DESIGN.md section 3 C15"),
    "C18": ("exploration",
            "bounded exhaustive enumeration of nested values through real json.dumps/loads, type-exact comparison",
            "Every value of nesting <=3 / list width <=2 over a 33-leaf alphabet (extreme numbers, nan/inf/-0.0, unicode and "
            "surrogate strings, UUIDs, a registry type, serializer classes of subclass depth 1-3, two classes sharing a "
            "simple name in different modules), every object class wrapping every smaller value, is round-tripped through "
            "real JSON text and compared type-exactly; every serialised object dict is checked for its fully qualified tag.",
            "Tuples/sets outside the statement; classes at module top level; CPython json module.",
            "DESIGN.md section 3 C18"),
    "C19": ("fault_enumeration",
            "exhaustive enumeration of a type-tag fault grammar against from_json, outcome classified by exception class",
            "Every JSON type under the tag key and ~4000 strings of the grammar dots.module.sep.attr.dots (importable, "
            "missing, missing parent, import-failing modules; functions, modules, TypeVars, instances, plain classes, the "
            "abstract serializer base, deserialisable controls), top level and nested in a list, must raise a "
            "JSONSerializationError subclass (the documented subclass for the four documented cases) and never return an "
            "object; the control group must return exactly the tagged class.",
            "Only JSON-representable tags; module alphabet fixed (stdlib + harness modules).",
            "DESIGN.md section 3 C19"),
}
