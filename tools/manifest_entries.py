"""Per-property MANIFEST entries: id -> (level, technique, text, note, design_ref)."""
ENTRIES = {
    "C01": ("exploration",
            "bounded exhaustive enumeration of query terms x domain contents on the real engine vs a brute-force first-order evaluator",
            "Every EQL condition tree with <=3 (thorough: 4) leaves over a 5-atom alphabet, with every and_/or_ labelling and "
            "not_ above any node, plus one feature atom per vocabulary item of the statement in every <=2-leaf context, "
            "quantifiers over predicates and pairs of quantifiers (same and different quantified variables), method calls with "
            "symbolic arguments, order comparisons over partially ordered values (sets by inclusion, NaN), flatten and nested "
            "an/the sub-queries, and queries in which one expression object occurs at several positions, is built through "
            "the public API and evaluated by the real engine "
            "over a family of domain contents (all valuations, a value-equal twin, every pair of sub-domains of a "
            "3-object universe incl. empty ones); the row SET is compared with an independent reference evaluator. "
            "Exhaustive inside the bounds, nothing sampled.",
            "Bounds as listed in evidence.bounds; objects by identity, scalars type-exact; recorded findings "
            "(known_findings.json) exclude: empty domains never bound by short-circuit "
            "evaluation, exists/not for_all witness de-duplication. CPython 3.12.",
            "DESIGN.md section 3 C01"),
    "C02": ("exploration",
            "bounded exhaustive enumeration of the NNF conjunctive/else-if fragment, row multisets vs brute force; the()/Exactly(k) around the true count",
            "Every query of the fragment named by the property (atoms and negated atoms incl. Predicate subclasses and "
            "symbolic functions, and_, or_ only between operands over equal variable sets) with <=3 leaves over 2 variables "
            "and <=2 leaves over 3 variables (thorough: 3 leaves over 3 variables, and 4 leaves over 2 variables with a core of six atoms) x 5 selections x 4 domain contents, plus a family with order comparisons over partially ordered values, runs on the real engine; "
            "the multiset of rows must equal the projection of all satisfying total assignments, and the()/"
            "an(Exactly(count-1|count|count+1)) must follow the true count.",
            "Row order not compared; bounds in evidence.bounds; CPython 3.12.",
            "DESIGN.md section 3 C02"),
    "C15": ("model_checking",
            "explicit enumeration of all ordered assertion sequences on the real descriptors, compared after every step with a reference fix-point closure",
            "All ordered sequences of <=4 (thorough 5) distinct sub-organisation assertions over 4 companies (every chain, "
            "diamond and cycle in every insertion order) and <=3 (thorough 4) assertions over the mixed universe "
            "(single-valued assignment, container assignment, append/add on works_for/member_of/members/head_of incl. a "
            "role), over units (transitive part_of with a plain inverse and a sub-property), workers (sub-property on a "
            "base class) and a transitive descriptor class attached to two classes (regions / cities), "
            "are executed on the real property descriptors from a fresh SymbolGraph; after every assertion the "
            "graph relations and every managed field must equal the least fix point of the declared semantics.",
            "Population 4 companies / 2 persons / 1 CEO; list fields compared as sets; histories with a single-valued "
            "conflict are outside the statement and excluded by the generator (counted in evidence features).",
            "DESIGN.md section 3 C15"),
    "C18": ("exploration",
            "bounded exhaustive enumeration of nested values through real json.dumps/loads, type-exact comparison",
            "Every value of nesting <=3 / list width <=2 over a 33-leaf alphabet (extreme numbers, nan/inf/-0.0, unicode and "
            "surrogate strings, UUIDs, a registry type and a registered subclass of it, serializer classes of subclass depth 1-3, two classes sharing a "
            "simple name in different modules), every object class wrapping every smaller value, is round-tripped through "
            "real JSON text and compared type-exactly; every serialised object dict is checked for its fully qualified tag.",
            "Tuples/sets outside the statement; classes at module top level; CPython json module.",
            "DESIGN.md section 3 C18"),
    "C19": ("fault_enumeration",
            "exhaustive enumeration of a type-tag fault grammar against from_json, outcome classified by exception class",
            "Every JSON type under the tag key and ~4000 strings of the grammar dots.module.sep.attr.dots (importable, "
            "missing, missing parent, import-failing modules; functions, modules, TypeVars, instances, unhashable values, plain classes, the "
            "abstract serializer base, deserialisable controls), top level and nested in a list, must raise a "
            "JSONSerializationError subclass (the documented subclass for the four documented cases) and never return an "
            "object; the control group must return exactly the tagged class. Every document is deserialised three times in a row and all attempts must agree.",
            "Only JSON-representable tags; module alphabet fixed (stdlib + harness modules).",
            "DESIGN.md section 3 C19"),
    "C13": ("model_checking",
            "stateless exploration of all create/drop/sweep/query/clear histories on the real registry, weak-reference census oracle",
            "Every operation sequence to depth 5 from the empty registry and depth 4 from three pre-populated registries "
            "(thorough: 6/5, 12-operation alphabet) over a diamond class hierarchy (two classes with falsy instances) is replayed on the real SymbolGraph; every "
            "query inside the history and a final query per type must return exactly the live instances (multiset of ids) "
            "according to the harness's own weak references. No de-duplication of states, because the future depends on "
            "rustworkx's free list.",
            "CPython refcounting; clear() interpreted as the documented reset; instances kept alive by krrood itself are C20's subject.",
            "DESIGN.md section 3 C13"),
    "C14": ("model_checking",
            "differential exploration: every garbage-producing prefix history x every assertion suffix vs the same suffix on a cleared graph",
            "All prefix histories to depth 4 (x28 suffixes, some with a sweep between creation and assertion) and depth 5 (x8 core suffixes) of creating, relating, dropping and "
            "sweeping persons/companies/CEOs, closed by dropping every prefix object with and without a final sweep, are "
            "followed by an assertion suffix on fresh objects; graph relations and field contents about the suffix objects "
            "must equal those of the suffix alone on a cleared graph and the reference closure. Histories with a birth after an "
            "unswept death also run under the identity adversary (mc/idadv.py). A second family keeps objects alive across the "
            "deaths of others (units with a transitive part_of, depth 5 from four start populations): after every operation "
            "no field of a live object holds a dead entry, nothing crashes, and the closure among live objects is present.",
            "Node-index recycling is exercised deterministically (rustworkx LIFO free list); CPython address reuse is provoked "
            "by the drop-then-create prefixes (reliably in practice, seeds c13-2/c14-2 are caught on every run) but not forced.",
            "DESIGN.md section 3 C14"),
    "C16": ("model_checking",
            "exhaustive sequences of write operations on real managed fields vs plain list/set semantics + reference closure after every step",
            "All sequences of <=2 operations from a 48/26-operation alphabet (item assignment with slices, one-shot iterators and self-referring values included) (and <=3 from a 9/7-operation core; thorough: 3 "
            "from the full alphabet) on a list-valued and a set-valued managed field, from initial contents of size 0-2 "
            "built by append, by assignment, by the constructor from a plain collection and by the constructor from another "
            "instance's managed field, run on the real descriptors; after every operation the field must equal "
            "what Python does to a plain list/set (order and repetitions included) and the graph and all inverse/super "
            "fields must contain the closure of the current elements. A second family starts from contents INFERRED through the "
            "inverse property, runs every prefix of <=2 (thorough 3) operations incl. removals and then writes one more element "
            "in every equivalent way (7 for lists, 5 for sets): all ways must leave the same contents. A third family runs all "
            "sequences of <=2 (3) writes on a list field whose own inferences append to it (transitive property) against Python's "
            "operation on the contents before the write.",
            "Retraction (removal of consequences of elements that left the field) is outside the statement and not checked.",
            "DESIGN.md section 3 C16"),
    "C20": ("model_checking",
            "stateless exploration of all create/relate/query/drop histories, repeated 3x, weak-reference census + container-size oracle, holder attribution by intervention",
            "Every operation sequence to depth 5 (thorough 6) over {new person, new company, relate, explicit-domain query, "
            "partially consumed query, domain-less query, drop} is run three times in one process on the real library, each "
            "repetition closed by dropping all user references and gc.collect(); afterwards every harness weak reference must "
            "be dead, domain-less variables must be empty and every SymbolGraph container must be back to its empty size. "
            "Survivors are attributed by emptying krrood's expression registries and collecting again; only survivors that a "
            "query ranged over (or that are related to such an object) match the recorded open finding.",
            "Open findings C20-F1/F2 (process-wide strong expression registries) mean that in histories with explicit or "
            "domain-less queries over live objects a second, independent holder of the same objects would go unnoticed; "
            "histories without such queries are checked fully. CPython 3.12.",
            "DESIGN.md section 3 C20"),
    "C03": ("model_checking",
            "stateless enumeration of ALL interleavings of iterator steps over real query objects that share nodes, isolated-run oracle",
            "Sixteen scenarios of query objects sharing a query / a variable / a condition sub-expression / one attribute "
            "expression in different roles and build orders / both variables / a nested sub-query / the instance registry / a "
            "rule tree (refinement; alternative + next_rule), over list and one-shot generator domains; for every "
            "pair of per-iterator programs start.next^j.(drain|close|drop)[.start.drain] every interleaving of the two "
            "programs' steps is executed on freshly built real queries (thorough adds three iterators with <=2 preemptions); "
            "every evaluation must yield exactly what it yields alone on a fresh identical query (a prefix if abandoned), and "
            "the alone-result must equal a plain-Python reference. "
            "A failing schedule is replayed on a second fresh build before it is believed.",
            "Scenario family fixed (S1-S17, S10 thorough only); 2-5 results per query (five-result rule scenarios: <=3 preemptions); results compared as sequences of names. "
            "Open finding C03-F3: overlapping evaluations of one rule query.",
            "DESIGN.md section 3 C03"),
    "C08": ("exploration",
            "exhaustive enumeration of written rule trees x all truth valuations of the branch conditions vs a reference ripple-down-rules interpreter",
            "Every rule tree with <=6 branches (thorough 7) that can be written with nested with-blocks from refinement / "
            "alternative / next_rule (root with or without its own conclusion) is built through the public API exactly as a "
            "user writes it; branch i tests its own boolean attribute and the domain holds one object per valuation of all "
            "conditions, so every combination of branch outcomes occurs for every tree; the inferred (tag, object) multiset "
            "must equal a direct transcription of the statement. A two-variable variant checks that conclusions are built "
            "from the binding that triggered them; every tree with <=4 (thorough 5) branches is also written with bare boolean "
            "attributes and Predicates as conditions (eight styles), in two `with query:` blocks, and - up to 5 (thorough 6) "
            "branches - with the refinement of every block written after its first / after all follow-ups.",
            "Shapes the statement does not define are excluded (two refinements in one block, next_rule inside a refinement or "
            "alternative block, an alternative written after a next_rule in the same block).",
            "DESIGN.md section 3 C08"),
    "C12": ("exploration",
            "exhaustive enumeration of call shapes (signature x positional/keyword split x argument sources) with a call log of harness-defined bodies",
            "Every call shape - Predicate subclass, @symbolic_function function and method; arity 1-3 with 0-2 trailing defaults; "
            "every number of given arguments, positional prefix length and keyword order; a keyword-only parameter declared between the positional ones (Predicate dataclass, function, method) in every valid call shape; every assignment of {variable, attribute "
            "of a variable, second variable, result of a nested symbolic call, concrete value} to the arguments - is executed, and so are "
            "pairs of different callables with the same module and qualified name but another parameter order or number, "
            "used one after the other in both orders: all-concrete calls must run "
            "once and return the plain result; symbolic calls must not run at construction, must be invoked once per candidate "
            "binding with every parameter bound to the value written in its position, and the query must return exactly the domain "
            "elements the concrete call accepts.",
            "Domains of 4 and 2 elements; the body is a function of all parameters in which positions are not interchangeable.",
            "DESIGN.md section 3 C12"),
    "C10": ("exploration",
            "exhaustive enumeration of query shapes x every number k of results pulled, event log of harness-supplied generators, items and predicates",
            "Construction: every distinct query of the C01 enumeration with <=2 leaves (feature atoms, flatten, nested sub-queries, "
            "one-shot iterables as literal operands, an/the/Exactly) and every rule tree with <=4 branches is built over logging "
            "generator domains and logging items; the event log must be empty, and calling evaluate() without iterating must stay "
            "silent. Consumption: for 100 query shapes over one-shot generator domains (incl. flattened generator-valued "
            "attributes and flattened one-shot generators) and EVERY k up to the number of results, "
            "the k results must be a prefix of a fresh full run, some selected variable's generator must not have been read "
            "past the last element occurring in those k results (loop-order agnostic laziness), and a flattened lazy iterable "
            "must not have handed out more than the elements up to the k-th result.",
            "All observation points are harness objects (no hook in krrood). Queries with Python bool constants are left to C01.",
            "DESIGN.md section 3 C10"),
    "C11": ("exploration",
            "exhaustive enumeration of match patterns x a domain containing every attribute valuation twice, direct-predicate oracle",
            "All 1663 patterns entity_matching(Box, dom)(tag=?, main=?, items=?) built from literals, literal lists, nested "
            "matches one to three levels deep, selects one to three levels below the root pattern, subclass matches, match_any / match_all over every non-empty sub-list of a "
            "3-item universe and the select twins are evaluated over 234 boxes (every (tag, main, items) valuation and a "
            "value-equal twin of each) plus foreign elements; the returned identity set must equal the boxes satisfying a "
            "direct Python predicate and selected parts must be the matched box's own attribute values.",
            "A literal list on a collection attribute is outside the statement; multiplicities not compared. Open finding "
            "C11-F1 (existential de-duplication by value when match_any is the only constraint).",
            "DESIGN.md section 3 C11"),
    "C17": ("exploration",
            "exhaustive enumeration of generated dataclass models x hand-over orders x read-only operation sequences vs an independent get_type_hints analysis",
            "36k generated models (<=3 classes, every inheritance forest, relation fields X / Optional[X] / List / Set / Sequence / Type "
            "to every target incl. self, two fields to one target, quoted forward references inside Optional/List/... in modules "
            "WITHOUT postponed annotations and modules with `from __future__ import annotations`, private "
            "fields, rotating scalar blocks) and four handwritten models (generic bases; several direct bases, a diamond) are imported and handed to ClassDiagram in different orders; nodes, inheritance "
            "edges, association edges and every WrappedField predicate are compared with an independent typing-based reading; "
            "windows that together cover every sequence of <=2 (thorough 3) read-only operations are applied with the snapshot "
            "re-taken after each operation, and derived sub-diagrams are compared with the documented edge set.",
            "Quick tier: 3-class models carry <=1 relation field per class and two hand-over orders; unions other than Optional not generated.",
            "DESIGN.md section 3 C17"),
    "C06": ("exploration",
            "exhaustive enumeration of generated dataclass models through the real ORMatic pipeline, mapper inspection vs an independent annotation reading",
            "7670 models (thorough 40k) with <=3 classes from the documented modelling grammar - rotating scalar blocks incl. one without "
            "any builtin field and one with only Optional scalars, relation fields X / Optional[X] / List[X] to every class incl. "
            "itself, two relation fields per class incl. two collections of one target, every inheritance forest, both hand-over "
            "orders - go through ClassDiagram -> ORMatic -> Jinja; the generated module must import, configure_mappers() and "
            "create_all() must succeed, there must be exactly one DAO per class with the right original class and base chain, "
            "a column (JSON for lists of builtins) or a relationship with the right target DAO and uselist for every public "
            "field, nothing for private fields, nothing extra, and a second generation must give byte-identical text.",
            "The black formatting pass is skipped for the bulk and exercised on every 97th model (AST-compared). SQLite / SQLAlchemy 2.0. "
            "Quick tier: 3-class models carry <=1 relation field per class.",
            "DESIGN.md section 3 C06"),
    "C04": ("exploration",
            "exhaustive enumeration of object graphs over a curated mapped model, to_dao/from_dao on every root, identity-aware isomorphism oracle",
            "100k object graphs (2 items x 2 holders with every one/many/back/peers wiring incl. self loops, 2-cycles, repeated "
            "elements, value-equal twins and subclass instances in base-typed fields; an alternatively mapped vector in single "
            "fields, collections and cycles next to a Type-valued field; an alternatively mapped parent with a normally mapped "
            "child, several such children in one conversion; mappings that allocate mapped objects; a many-to-many between an "
            "alternatively mapped and a normally mapped class; a TypeDecorator-mapped value class) are converted with to_dao "
            "and back with from_dao from every node as root and from all nodes with one shared state, once with the "
            "interpreter's id() and once under an identity adversary that hands the identity of every dead object to the next "
            "object born (mc/idadv.py); the result must be isomorphic including aliasing, collection order "
            "and concrete classes, with exactly one DAO per distinct object.",
            "The curated model reproduces each kind of mapping of the repository's data set (which contains lossy-by-design classes). "
            "Quick tier takes every wiring with a back reference and a fifth of the purely forward ones.",
            "DESIGN.md section 3 C04"),
    "C05": ("exploration",
            "exhaustive enumeration of object graphs and of generated models with canonical populations, persisted and reloaded in a second Session",
            "6500 cases: curated-model graphs (back references, cycles, alternative mappings, custom types) and every generated "
            "model of the C06 grammar with <=2 classes populated with two instances per class in up to 32 (thorough 64) wirings "
            "are stored with to_dao + add_all + commit, the session is closed, and every object is loaded in a NEW Session through "
            "its own DAO class and through every DAO base class, then converted with from_dao (and once more under the "
            "identity adversary of mc/idadv.py); the reloaded graph must be "
            "isomorphic (polymorphic classes, type-exact scalars, JSON lists in order, relationship collections as sets, sharing) "
            "and every table must hold exactly one row per distinct object of its class.",
            "SQLite in-memory through krrood's own create_engine; repeated elements inside one collection are outside the statement.",
            "DESIGN.md section 3 C05"),
    "C07": ("translation_validation",
            "three-way differential over an enumerated query grammar x a family of database contents: plain-Python reference = in-memory engine = translated SQL on persisted objects",
            "~4500 queries (scalar comparisons in six operators, in_/contains with literal lists and strings, one- and two-step "
            "relationship paths, enum literals, attribute-equality joins and cross-variable scalar comparisons, literal comparisons on the second variable, combined with "
            "and_/or_ up to 3 leaves, quantified with an and the, subclass-typed variables, plus one instance of every construct "
            "the translator has no case for) are evaluated on 20 (thorough 64) database contents incl. contents where one "
            "entity has several join partners: the entities - and the row multiplicities, one row per binding - selected by the "
            "SQL statement produced by eql_to_sql in a fresh Session must be exactly those the in-memory engine and a plain-Python "
            "reference select over the original objects, the() must fail in both worlds for the same queries, and anything the "
            "translator cannot express must raise EQLTranslationError.",
            "SQLite; references on queried paths are never None; pairs where the in-memory engine disagrees with the reference are left to C01; recorded findings C07-F3/F4 (known_findings.json) are reported as KNOWN-FINDING lines.",
            "DESIGN.md section 3 C07"),
}
