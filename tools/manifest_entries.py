"""Per-property MANIFEST entries: id -> (level, technique, text, note, design_ref)."""
ENTRIES = {
    "C01": ("exploration",
            "bounded exhaustive enumeration of query terms x domain contents on the real engine vs a brute-force first-order evaluator",
            "Every EQL condition tree with <=3 (thorough: 4) leaves over a 5-atom alphabet, with every and_/or_ labelling and "
            "not_ above any node, plus one feature atom per vocabulary item of the statement in every <=2-leaf context, "
            "flatten and nested an/the sub-queries, is built through the public API and evaluated by the real engine "
            "over a family of domain contents (all valuations, a value-equal twin, every pair of sub-domains of a "
            "3-object universe incl. empty ones); the row SET is compared with an independent reference evaluator. "
            "Exhaustive inside the bounds, nothing sampled.",
            "Bounds as listed in evidence.bounds; objects by identity, scalars type-exact; recorded findings "
            "(known_findings.json) exclude: bool constants as conditions, empty domains never bound by short-circuit "
            "evaluation, exists/not for_all witness de-duplication. CPython 3.12.",
            "DESIGN.md section 3 C01"),
    "C02": ("exploration",
            "bounded exhaustive enumeration of the NNF conjunctive/else-if fragment, row multisets vs brute force; the()/Exactly(k) around the true count",
            "Every query of the fragment named by the property (atoms and negated atoms incl. Predicate subclasses and "
            "symbolic functions, and_, or_ only between operands over equal variable sets) with <=3 leaves over 2 variables "
            "and <=2 leaves over 3 variables (thorough: 4/3) x 5 selections x 4 domain contents runs on the real engine; "
            "the multiset of rows must equal the projection of all satisfying total assignments, and the()/"
            "an(Exactly(count-1|count|count+1)) must follow the true count.",
            "Row order not compared; bounds in evidence.bounds; CPython 3.12.",
            "DESIGN.md section 3 C02"),
}
