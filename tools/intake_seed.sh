#!/bin/bash
# usage: intake_seed.sh <agent worktree> <new seed id> <property> <check ids...>
# Copies patch.diff and demo.py of a sub-agent's scratch worktree into seeded/<id>/, removes that worktree, writes a
# preliminary meta.json (caught_by = the named checks) and runs tools/reconfirm_seed.sh on it.
wt=$1; sid=$2; prop=$3; shift 3
d=/verif/seeded/$sid; mkdir -p $d
git -C $wt diff -- src > $d/patch.diff
[ -s $d/patch.diff ] || cp $wt/patch.diff $d/patch.diff
sed "s#$wt#<worktree>#g" $wt/demo.py > $d/demo.py
git -C /repo worktree remove --force $wt; git -C /repo worktree prune
/venv/bin/python - "$sid" "$prop" "$@" <<'PY'
import json, sys, subprocess
sid, prop, *checks = sys.argv[1:]
head = subprocess.check_output(['git','-C','/repo','rev-parse','--short','HEAD'], text=True).strip()
json.dump({"seed_id": sid, "property": prop, "caught_by": checks, "base_commit": head}, open(f'/verif/seeded/{sid}/meta.json','w'), indent=1)
PY
/verif/tools/reconfirm_seed.sh $sid
