#!/bin/bash
# usage: triage_seed.sh <patch file | seeded id> <check ids...>
# Runs the named checks (quick tier) against a scratch worktree of /repo's HEAD with the patch applied, without touching
# /repo itself (KRROOD_REPO points the checks at the worktree). Evidence of these runs is discarded. For triage while a
# `vp run` is using /repo; the confirmation of record is tools/confirm_seed.sh.
p=$1; shift
[ -f "$p" ] || p=/verif/seeded/$p/patch.diff
wt=$(mktemp -d /tmp/wt_triage_XXXX); rmdir $wt
git -C /repo worktree add -q --detach $wt HEAD || exit 2
trap 'git -C /repo worktree remove --force '$wt'; git -C /repo worktree prune' EXIT
git -C $wt apply $p || { echo "PATCH DOES NOT APPLY"; exit 2; }
cd /verif
for c in "$@"; do
  KRROOD_REPO=$wt ./check $c --tier quick > /tmp/triage_$$.log 2>&1; rc=$?
  echo "== $c exit=$rc  $(grep -c '^VIOLATION' /tmp/triage_$$.log) violations shown"
  grep -m2 -A2 "^VIOLATION\|HARNESS" /tmp/triage_$$.log | cut -c1-400
  tail -1 /tmp/triage_$$.log | cut -c1-200
done
rm -f /tmp/triage_$$.log
git -C /verif checkout -- evidence 2>/dev/null
