import sys, os, collections, multiprocessing as mp
sys.path.insert(0, '/verif')
from checks import c01
from oracles import fol

def preds(case, f):
    q, dspec = case
    _, kind, sels, c, decls = q
    out = []
    subs = list(fol.subconds(c)) if c else []
    def is_union(s):
        return s[0]=="or" and fol.cond_vars(s[1]) != fol.cond_vars(s[2])
    if any(is_union(s) for s in subs): out.append("union")
    def under_not(c, neg=False):
        if c is None: return False
        if c[0]=="not": return under_not(c[1], True)
        if c[0] in("and","or"):
            if neg and is_union(c): return True
            return under_not(c[1],neg) or under_not(c[2],neg)
        if c[0] in ("exists","forall"):
            return under_not(c[2],neg)
        return False
    if under_not(c): out.append("not>union")
    cv = fol.cond_vars(c) if c else set()
    selv = set()
    for s in sels: selv |= fol.term_vars(s)
    if selv - cv: out.append("sel-unbound")
    if any(s[0]!="var" for s in sels): out.append("sel-expr")
    kinds = {s[0] for s in subs}
    for k in ("const","exists","forall","bool","pred","func","hastype","in","contains"):
        if k in kinds: out.append(k)
    if any(d[0]!="dom" for d in decls): out.append("dep:"+",".join(d[0] for d in decls if d[0]!="dom"))
    if dspec[0]=="sub3" and (dspec[1]==0 or dspec[2]==0): out.append("emptydom")
    if dspec[0]=="D5shared": out.append("shared")
    return tuple(out)

def work(chunk):
    res=[]
    for case in chunk:
        r = c01.run_case(case)
        for f in r.failures:
            res.append((f.kind, preds(case,f), fol.show_query(case[0])+" "+str(case[1]), f.detail[-300:]))
    return res

if __name__=="__main__":
    cases = c01.cases("quick",0)
    chunks=[cases[i:i+500] for i in range(0,len(cases),500)]
    groups=collections.defaultdict(list)
    with mp.get_context("fork").Pool(16, maxtasksperchild=8) as pool:
        for res in pool.imap_unordered(work, chunks):
            for kind,p,s,d in res:
                g=groups[(kind,p)]
                g.append((s,d))
    for (kind,p),g in sorted(groups.items(), key=lambda kv:-len(kv[1])):
        g.sort(key=lambda t: len(t[0]))
        print(f"{len(g):6d} {kind:12s} {p}\n        e.g. {g[0][0]}\n             {g[0][1][:400]}")
