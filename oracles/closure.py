"""
Reference least-fixpoint closure of descriptor facts under the DECLARED semantics (plain Python).

A fact is (source object, field name, target object). Metadata comes from models/onto.py as data:
FIELDS[(class, field)] = (descriptor class, single_valued) and ROLE_TAKER_FIELD[class] = field holding the role taker.
Rules
  super     : (s,f,t), D=desc(f)      => (s,f',t) for every field f' of type(s) whose descriptor is a strict superclass of D
              and, if s is a role, (r,f',t) for the role taker r and every field f' of type(r) likewise
  inverse   : (s,f,t), I=D.get_inverse() => (t,fI,s) if type(t) has a field with descriptor exactly I,
              else (rt,fI,s) for t's role taker rt if type(rt) has such a field
  transitive: (a,f,b),(b,f',c) with the same transitive descriptor class => (a,f,c): the derived fact is a fact of a,
              so it lives in a's own field (f and f' differ when one descriptor class is attached to two classes)
"""


def fields_of(cls, FIELDS):
    out = []
    for (c, f), (d, single) in FIELDS.items():
        if issubclass(cls, c):
            out.append((f, d, single))
    return out


def closure(asserted, FIELDS, ROLE_TAKER_FIELD, transitive_base, inverse_base):
    """asserted: iterable of (s, f, t). Returns set of (id(s), f, id(t)) plus the objects by id."""
    objs = {}
    facts = set()

    def desc(s, f):
        for (c, ff), (d, single) in FIELDS.items():
            if ff == f and isinstance(s, c):
                return d
        raise KeyError((type(s), f))

    def role_taker(s):
        for c, f in ROLE_TAKER_FIELD.items():
            if isinstance(s, c):
                return getattr(s, f)
        return None

    work = list(asserted)
    while work:
        s, f, t = work.pop()
        k = (id(s), f, id(t))
        if k in facts:
            continue
        facts.add(k)
        objs[id(s)] = s
        objs[id(t)] = t
        D = desc(s, f)
        # super properties on the source's own class and on its role taker
        for f2, D2, _ in fields_of(type(s), FIELDS):
            if D2 is not D and issubclass(D, D2):
                work.append((s, f2, t))
        r = role_taker(s)
        if r is not None:
            for f2, D2, _ in fields_of(type(r), FIELDS):
                if D2 is not D and issubclass(D, D2):
                    work.append((r, f2, t))
        # inverse
        if issubclass(D, inverse_base):
            I = D.get_inverse()
            cand = [f2 for f2, D2, _ in fields_of(type(t), FIELDS) if D2 is I]
            if cand:
                work.append((t, cand[0], s))
            else:
                rt = role_taker(t)
                if rt is not None:
                    cand = [f2 for f2, D2, _ in fields_of(type(rt), FIELDS) if D2 is I]
                    if cand:
                        work.append((rt, cand[0], s))
        # transitivity (needs the facts so far)
        if issubclass(D, transitive_base):
            for (a, f1, b) in list(facts):
                if b == id(s) and f1 in [ff for ff, DD, _ in fields_of(type(objs[a]), FIELDS) if DD is D]:
                    work.append((objs[a], f1, t))
                if a == id(t) and desc(objs[a], f1) is D:
                    work.append((s, f, objs[b]))
    return facts, objs
