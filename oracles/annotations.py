"""
Independent reading of dataclass annotations with typing.get_type_hints (imports nothing from krrood).
"""
import collections.abc
import dataclasses
import datetime
import enum
import typing
from types import NoneType

BUILTINS = (int, float, str, bool, datetime.datetime, NoneType)


def analyse(hint):
    """returns dict(optional, container, type_valued, endpoint) for one resolved type hint"""
    origin = typing.get_origin(hint)
    args = typing.get_args(hint)
    info = dict(optional=False, container=False, type_valued=False, endpoint=hint, container_type=None)
    if origin is typing.Union and len(args) == 2 and NoneType in args:
        info["optional"] = True
        info["endpoint"] = [a for a in args if a is not NoneType][0]
    elif origin in (list, set, tuple, collections.abc.Sequence):
        info["container"] = True
        info["container_type"] = origin
        info["endpoint"] = args[0]
    elif origin is type:
        info["container"] = True  # krrood lists `type` among its container origins; the statement calls it type-valued
        info["type_valued"] = True
        info["endpoint"] = args[0]
    return info


def read_class(cls):
    """public dataclass fields of cls (inherited ones included) -> {field name: info}"""
    hints = typing.get_type_hints(cls)
    out = {}
    for f in dataclasses.fields(cls):
        if f.name.startswith("_"):
            continue
        info = analyse(hints[f.name])
        ep = info["endpoint"]
        info["builtin"] = ep in BUILTINS
        info["enum"] = isinstance(ep, type) and issubclass(ep, enum.Enum) and not info["container"]
        info["is_class_ref"] = isinstance(ep, type) and not info["builtin"] and not (isinstance(ep, type) and issubclass(ep, enum.Enum))
        out[f.name] = info
    return out


def expected_diagram(classes):
    """classes: list of classes in the diagram -> (inheritance pairs (base, sub), association triples (src, field, target))"""
    cs = list(classes)
    inh = set()
    for c in cs:
        for b in c.__bases__:
            if b in cs:
                inh.add((b, c))
    assoc = set()
    for c in cs:
        for fname, info in read_class(c).items():
            if info["endpoint"] in cs:
                assoc.add((c, fname, info["endpoint"]))
    return inh, assoc
