"""
Reference first-order evaluator for harness query ASTs (plain Python, imports nothing from krrood).

Query AST
    ("query", kind, sels, cond, decls)
        kind  : "entity" | "setof"
        sels  : tuple of terms
        cond  : condition AST or None
        decls : tuple of variable declarations in binding order:
                  ("dom",  name)                     -- ranges over world[name]
                  ("flat", name, term)               -- ranges over the collection `term` (dependent)
                  ("sub",  name, q, v, cond)         -- q in {"an","the"}: ranges over the results of
                                                        entity(v, cond) where v ranges over world[v]
Terms
    ("var", name) ("attr", t, field) ("idx", t, key) ("call", t, method, args) ("lit", value)
Conditions
    ("cmp", op, t1, t2)  op in eq ne lt le gt ge
    ("in", item, container)            -- in_(item, container)
    ("contains", container, item)      -- contains(container, item)
    ("bool", t)                        -- a bare boolean-valued term used as condition
    ("const", True|False)
    ("hastype", t, typename)
    ("pred", name, t...)               -- Predicate subclass, positional
    ("func", name, ((kw, t)...))       -- symbolic function, keyword
    ("and", c1, c2) ("or", c1, c2) ("not", c)
    ("exists", name, c) ("forall", name, c)   -- name ranges over world[name]
"""
import itertools
import operator

OPS = {"eq": operator.eq, "ne": operator.ne, "lt": operator.lt, "le": operator.le, "gt": operator.gt,
       "ge": operator.ge}


class Undefined(Exception):
    """The reference value is not defined (e.g. `the` sub-query without a unique result)."""


def term(t, env, world):
    k = t[0]
    if k == "var":
        return env[t[1]]
    if k == "attr":
        return getattr(term(t[1], env, world), t[2])
    if k == "idx":
        return term(t[1], env, world)[t[2]]
    if k == "call":
        return getattr(term(t[1], env, world), t[2])(*t[3])
    if k == "idxv":  # an index whose key is a term
        return term(t[1], env, world)[term(t[2], env, world)]
    if k == "callv":  # a call whose arguments are terms
        return getattr(term(t[1], env, world), t[2])(*[term(a, env, world) for a in t[3]])
    if k == "lit":
        v = t[1]
        return list(v) if isinstance(v, tuple) else v
    raise ValueError(t)


def cond(c, env, world):
    k = c[0]
    if k == "cmp":
        return bool(OPS[c[1]](term(c[2], env, world), term(c[3], env, world)))
    if k == "in":
        return operator.contains(term(c[2], env, world), term(c[1], env, world))
    if k == "contains":
        return operator.contains(term(c[1], env, world), term(c[2], env, world))
    if k == "bool":
        return bool(term(c[1], env, world))
    if k == "const":
        return bool(c[1])
    if k == "hastype":
        return isinstance(term(c[1], env, world), world["__types__"][c[2]])
    if k == "pred":
        return bool(world["__preds__"][c[1]](*[term(t, env, world) for t in c[2:]]))
    if k == "func":
        return bool(world["__funcs__"][c[1]](**{kw: term(t, env, world) for kw, t in c[2]}))
    if k == "and":
        return cond(c[1], env, world) and cond(c[2], env, world)
    if k == "or":
        return cond(c[1], env, world) or cond(c[2], env, world)
    if k == "not":
        return not cond(c[1], env, world)
    if k == "exists":
        return any(cond(c[2], {**env, c[1]: v}, world) for v in world[c[1]])
    if k == "forall":
        return all(cond(c[2], {**env, c[1]: v}, world) for v in world[c[1]])
    raise ValueError(c)


def sub_results(decl, world):
    _, name, q, v, c = decl
    res = [o for o in world[v] if c is None or cond(c, {v: o}, world)]
    if q == "the" and len(res) != 1:
        raise Undefined(f"the() sub-query has {len(res)} results")
    return res


def assignments(decls, world, env=None, i=0):
    """All total assignments of the declared variables, in declaration order (dependent ones after their parents)."""
    env = env or {}
    if i == len(decls):
        yield dict(env)
        return
    d = decls[i]
    if d[0] == "dom":
        values = world[d[1]]
    elif d[0] == "flat":
        values = list(term(d[2], env, world))
    elif d[0] == "sub":
        values = sub_results(d, world)
    else:
        raise ValueError(d)
    for v in values:
        env[d[1]] = v
        yield from assignments(decls, world, env, i + 1)
    env.pop(d[1], None)


def rows(query, world):
    """List (multiset, in assignment order) of rows: one per satisfying total assignment."""
    _, kind, sels, c, decls = query
    out = []
    for env in assignments(decls, world):
        if c is None or cond(c, env, world):
            out.append(tuple(term(s, env, world) for s in sels))
    return out


def key(v):
    """objects by identity, scalars type-exact by value"""
    if isinstance(v, (bool, int, float, str, type(None))):
        return ("s", type(v).__name__, v)
    return ("o", id(v))


def row_key(row):
    return tuple(key(v) for v in row)


# ---- structural helpers used by the generators and the classifiers --------------------------------

def term_vars(t):
    if t[0] == "var":
        return {t[1]}
    if t[0] in ("attr", "idx", "call"):
        return term_vars(t[1])
    if t[0] == "idxv":
        return term_vars(t[1]) | term_vars(t[2])
    if t[0] == "callv":
        out = term_vars(t[1])
        for a in t[3]:
            out |= term_vars(a)
        return out
    return set()


def cond_vars(c):
    """free variables of a condition"""
    k = c[0]
    if k == "cmp":
        return term_vars(c[2]) | term_vars(c[3])
    if k in ("in", "contains"):
        return term_vars(c[1]) | term_vars(c[2])
    if k in ("bool", "hastype"):
        return term_vars(c[1])
    if k == "const":
        return set()
    if k == "pred":
        return set().union(*[term_vars(t) for t in c[2:]])
    if k == "func":
        return set().union(*[term_vars(t) for _, t in c[2]])
    if k in ("and", "or"):
        return cond_vars(c[1]) | cond_vars(c[2])
    if k == "not":
        return cond_vars(c[1])
    if k in ("exists", "forall"):
        return cond_vars(c[2]) - {c[1]}
    raise ValueError(c)


def subconds(c):
    yield c
    k = c[0]
    if k in ("and", "or"):
        yield from subconds(c[1])
        yield from subconds(c[2])
    elif k == "not":
        yield from subconds(c[1])
    elif k in ("exists", "forall"):
        yield from subconds(c[2])


def show_term(t):
    k = t[0]
    if k == "var":
        return t[1]
    if k == "attr":
        return f"{show_term(t[1])}.{t[2]}"
    if k == "idx":
        return f"{show_term(t[1])}[{t[2]!r}]"
    if k == "call":
        return f"{show_term(t[1])}.{t[2]}({', '.join(map(repr, t[3]))})"
    if k == "idxv":
        return f"{show_term(t[1])}[{show_term(t[2])}]"
    if k == "callv":
        return f"{show_term(t[1])}.{t[2]}({', '.join(map(show_term, t[3]))})"
    if k == "lit":
        return repr(list(t[1]) if isinstance(t[1], tuple) else t[1])
    return repr(t)


PY = {"eq": "==", "ne": "!=", "lt": "<", "le": "<=", "gt": ">", "ge": ">="}


def show_cond(c):
    k = c[0]
    if k == "cmp":
        return f"{show_term(c[2])} {PY[c[1]]} {show_term(c[3])}"
    if k == "in":
        return f"in_({show_term(c[1])}, {show_term(c[2])})"
    if k == "contains":
        return f"contains({show_term(c[1])}, {show_term(c[2])})"
    if k == "bool":
        return show_term(c[1])
    if k == "const":
        return repr(c[1])
    if k == "hastype":
        return f"HasType({show_term(c[1])}, {c[2]})"
    if k == "pred":
        return f"{c[1]}({', '.join(show_term(t) for t in c[2:])})"
    if k == "func":
        return f"{c[1]}({', '.join(f'{kw}={show_term(t)}' for kw, t in c[2])})"
    if k in ("and", "or"):
        return f"{k}_({show_cond(c[1])}, {show_cond(c[2])})"
    if k == "not":
        return f"not_({show_cond(c[1])})"
    if k in ("exists", "forall"):
        return f"{'exists' if k == 'exists' else 'for_all'}({c[1]}, {show_cond(c[2])})"
    return repr(c)


def show_query(q):
    _, kind, sels, c, decls = q
    d = []
    for dec in decls:
        if dec[0] == "dom":
            d.append(f"{dec[1]}=let(Item, D_{dec[1]})")
        elif dec[0] == "flat":
            d.append(f"{dec[1]}=flatten({show_term(dec[2])})")
        else:
            d.append(f"{dec[1]}={dec[2]}(entity({dec[3]}, {show_cond(dec[4]) if dec[4] else ''}))")
    s = ", ".join(show_term(t) for t in sels)
    head = f"entity({s}" if kind == "entity" else f"set_of([{s}]"
    return "; ".join(d) + f"; an({head}{', ' + show_cond(c) if c else ''}))"
