"""
Identity-aware graph isomorphism between an original object graph and its copy (plain Python).

Simultaneous traversal that builds a bijection on object identities: same concrete class, equal scalars (type-exact),
same length and order of collections, recursion through references; the bijection must be functional in both
directions (aliasing preserved, distinct stays distinct). Never uses dataclass == (cannot see aliasing, diverges on
cycles).
"""
import dataclasses
import datetime
import enum

SCALARS = (int, float, str, bool, type(None), datetime.datetime, enum.Enum, type)
# tuples of scalars (raw coordinate pairs) are compared element-wise like lists


def compare(a, b, ordered=True):
    """returns None if isomorphic, else a short description of the first difference"""
    fwd, bwd = {}, {}

    def rec(x, y, path):
        if isinstance(x, SCALARS) or isinstance(y, SCALARS):
            if type(x) is not type(y):
                return f"{path}: {type(x).__name__} {x!r} became {type(y).__name__} {y!r}"
            if x != y:
                return f"{path}: {x!r} became {y!r}"
            return None
        if isinstance(x, (list, tuple, set)):
            if not isinstance(y, (list, tuple, set)):
                return f"{path}: collection became {type(y).__name__}"
            if isinstance(x, set) != isinstance(y, set):
                return f"{path}: {type(x).__name__} became {type(y).__name__}"
            xs, ys = list(x), list(y)
            if len(xs) != len(ys):
                return f"{path}: length {len(xs)} became {len(ys)}"
            if ordered and not isinstance(x, set):
                for i, (p, q) in enumerate(zip(xs, ys)):
                    d = rec(p, q, f"{path}[{i}]")
                    if d:
                        return d
                return None
            # unordered: greedy matching by attempting each candidate on copies of the maps
            remaining = list(ys)
            for i, p in enumerate(xs):
                found = False
                for q in remaining:
                    snap = (dict(fwd), dict(bwd))
                    if rec(p, q, f"{path}[{i}]") is None:
                        remaining.remove(q)
                        found = True
                        break
                    fwd.clear(); fwd.update(snap[0]); bwd.clear(); bwd.update(snap[1])
                if not found:
                    return f"{path}[{i}]: no matching element in the copy"
            return None
        # objects
        if id(x) in fwd or id(y) in bwd:
            if fwd.get(id(x)) != id(y) or bwd.get(id(y)) != id(x):
                return f"{path}: sharing structure differs (an object referenced from several places is not one object in the copy, or two objects were merged)"
            return None
        if type(x) is not type(y):
            return f"{path}: {type(x).__name__} became {type(y).__name__}"
        fwd[id(x)] = id(y)
        bwd[id(y)] = id(x)
        if dataclasses.is_dataclass(x):
            for f in dataclasses.fields(x):
                if f.name.startswith("_"):
                    continue
                d = rec(getattr(x, f.name), getattr(y, f.name, "<missing>"), f"{path}.{f.name}")
                if d:
                    return d
            return None
        if x != y:
            return f"{path}: {x!r} became {y!r}"
        return None

    return rec(a, b, "root")


def count_objects(root):
    seen = set()

    def rec(x):
        if isinstance(x, SCALARS):
            return
        if isinstance(x, (list, tuple, set)):
            for e in x:
                rec(e)
            return
        if id(x) in seen:
            return
        seen.add(id(x))
        if dataclasses.is_dataclass(x):
            for f in dataclasses.fields(x):
                rec(getattr(x, f.name))
    rec(root)
    return len(seen)
