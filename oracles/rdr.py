"""
Reference ripple-down-rules interpreter for written rule trees (plain Python).

Block = (has_conclusion, refinement: Block|None, followups: tuple[(kind, Block)])   kind in {"alt", "next"}
Blocks are numbered in pre-order (own number, then refinement subtree, then follow-ups in written order); block i has
condition i and conclusion tag i.

Semantics (the statement of C08):
  * a block fires for a binding if its condition holds;
  * its refinement chain (the refinement block and the alternatives written inside it), if something in it fires,
    replaces the block's own conclusion - recursively, the deepest wins;
  * follow-ups are processed in written order: an alternative only if nothing fired in its chain so far, a next_rule
    always, as a chain of its own; alternatives written directly inside the root are else-ifs of the base conditions.
"""


def number(block, counter=None):
    """returns a numbered copy: (index, has_conclusion, refinement, followups)"""
    counter = counter if counter is not None else [0]
    i = counter[0]
    counter[0] += 1
    has_c, ref, fol = block
    ref_n = number(ref, counter) if ref is not None else None
    fol_n = tuple((k, number(f, counter)) for k, f in fol)
    return (i, has_c, ref_n, fol_n)


def size(block):
    has_c, ref, fol = block
    return 1 + (size(ref) if ref is not None else 0) + sum(size(f) for _, f in fol)


def fire(nb, truth, switches=()):
    i, has_c, ref, fol = nb
    if not truth[i]:
        return None
    if ref is not None:
        c2, f2 = run(ref, truth, switches)
        if f2:
            return c2
    return [i] if has_c else []


def run(nb, truth, switches=()):
    i, has_c, ref, fol = nb
    concl = []
    r = fire(nb, truth, switches)
    fired = r is not None
    if fired:
        concl += r
    for kind, fb in fol:
        if kind == "alt":
            if not fired:
                c2, f2 = run(fb, truth, switches)
                concl += c2
                fired = fired or f2
        else:
            c2, _ = run(fb, truth, switches)
            concl += c2
    return concl, fired


def conclusions(block, truth):
    """multiset (sorted list) of conclusion tags for one binding with the given truth valuation of the conditions"""
    nb = number(block)
    c, _ = run(nb, truth)
    return sorted(c)


def show(block, depth=0, nb=None):
    nb = nb or number(block)
    i, has_c, ref, fol = nb
    pad = "    " * depth
    lines = []
    if has_c:
        lines.append(f"{pad}Add(tag={i})")
    if ref is not None:
        lines.append(f"{pad}with refinement(c{ref[0]}):")
        lines += show(None, depth + 1, ref)
    for k, f in fol:
        lines.append(f"{pad}with {'alternative' if k == 'alt' else 'next_rule'}(c{f[0]}):")
        lines += show(None, depth + 1, f)
    return lines
