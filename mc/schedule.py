"""
E3 - exhaustive interleaving exploration of cooperative iterators.

A "thread" is a program: a list of actions on one evaluation target
    ("start",)   it = iter(target.evaluate())
    ("next",)    pull one result (StopIteration ends the evaluation)
    ("drain",)   pull until StopIteration
    ("close",)   it.close()  (abandon)
    ("drop",)    del it      (abandon by dropping the reference)
All interleavings of the threads' programs (each program's own order preserved) are enumerated; the scheduler owns
every choice, nothing else is nondeterministic.
"""
from __future__ import annotations

import itertools


def interleavings(lengths):
    """all sequences of thread indices in which thread i occurs lengths[i] times"""
    total = sum(lengths)
    counts = list(lengths)

    def rec(prefix, remaining):
        if len(prefix) == total:
            yield tuple(prefix)
            return
        for t in range(len(remaining)):
            if remaining[t]:
                remaining[t] -= 1
                prefix.append(t)
                yield from rec(prefix, remaining)
                prefix.pop()
                remaining[t] += 1

    yield from rec([], counts)


def preemptions(schedule, lengths):
    """number of switches away from a thread that still has steps left"""
    left = list(lengths)
    n = 0
    for i, t in enumerate(schedule):
        left[t] -= 1
        if i + 1 < len(schedule) and schedule[i + 1] != t and left[t] > 0:
            n += 1
    return n


def programs(n_results, allow_restart=True):
    """the per-thread program family for an evaluation with n_results results"""
    out = []
    full = (("start",),) + (("next",),) * (n_results + 1)
    out.append(full)
    out.append((("start",), ("drain",)))
    for j in range(0, n_results + 1):
        for end in ("close", "drop"):
            out.append((("start",),) + (("next",),) * j + ((end,),))
    if allow_restart:
        extra = []
        for p in out:
            extra.append(p + (("start",), ("drain",)))
        out += extra
    return out


class Runner:
    """Executes one schedule over fresh targets; records, per evaluation, what it yielded and how it ended."""

    def __init__(self, targets, render, effects=None):
        """effects: optional list that the targets append to as a side effect of producing results (e.g. a log of the
        objects a rule query constructs); what each step adds is attributed to the evaluation that took the step"""
        self.targets = targets
        self.render = render
        self.effects = effects
        self.its = [None] * len(targets)
        self.evals = []  # list of dicts: thread, results, end
        self.current = [None] * len(targets)

    def step(self, t, action):
        before = len(self.effects) if self.effects is not None else 0
        try:
            self._step(t, action)
        finally:
            if self.effects is not None and self.current[t] is not None:
                self.current[t].setdefault("effects", []).extend(self.effects[before:])

    def _step(self, t, action):
        a = action[0]
        if a == "start":
            if self.current[t] is not None and self.current[t]["end"] is None:
                self.current[t]["end"] = "superseded"
            self.its[t] = iter(self.targets[t].evaluate())
            self.current[t] = {"thread": t, "results": [], "end": None}
            self.evals.append(self.current[t])
        elif a == "next":
            cur = self.current[t]
            if cur["end"] is not None:
                return
            try:
                cur["results"].append(self.render(t, next(self.its[t])))
            except StopIteration:
                cur["end"] = "exhausted"
        elif a == "drain":
            cur = self.current[t]
            if cur["end"] is not None:
                return
            for r in self.its[t]:
                cur["results"].append(self.render(t, r))
            cur["end"] = "exhausted"
        elif a == "close":
            cur = self.current[t]
            if cur["end"] is None:
                self.its[t].close()
                cur["end"] = "abandoned"
        elif a == "drop":
            cur = self.current[t]
            if cur["end"] is None:
                self.its[t] = None
                cur["end"] = "abandoned"
        else:
            raise ValueError(action)
