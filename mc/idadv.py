"""
An owned answer for one piece of environment nondeterminism: which identity (`id()`) a new object gets.

krrood keeps several tables keyed by `id(obj)` (DAO conversion memos, the symbol graph's instance index, hashed values).
Whether a table entry whose object has died is hit again depends on the allocator handing the dead object's address to
a later object -- something CPython does often, but not predictably.  A check cannot explore that by waiting for luck;
instead the library's `id` lookups are routed (module global `id`, shadowing the builtin in krrood's modules only)
through an IdAdversary that plays the allocator's LEGAL but most hostile answer deterministically:

  * every weak-referenceable object gets a virtual identity, stable for its whole life and distinct from the identity
    of every object alive at the same time (the contract of `id`);
  * when an object dies, its identity is released, and is handed to the NEXT object that is provably born afterwards
    (newest released identity first -- CPython's per-size free lists are LIFO too).

"Provably born afterwards": the harness stamps births (`born(obj)`, called from constructor hooks it owns: SQLAlchemy's
`init` event for DAO classes, krrood's instance registration for Symbols).  An object without a birth stamp, or born
before the release, never receives a recycled identity -- otherwise two objects that were alive at the same time could
appear to share an identity, which no allocator can do (that would be a false alarm).  Objects that cannot be weakly
referenced keep their real `id`.  Virtual identities are odd numbers, real addresses are even: they never collide.

With `recycle=False` the adversary hands out fresh identities only (the "no address is ever reused" answer).
"""
import builtins
import weakref

_real_id = builtins.id


class IdAdversary:
    def __init__(self, recycle=True):
        self.recycle = recycle
        self.epoch = 0
        self.map = {}  # real id -> (virtual id, weakref)
        self.birth = {}  # real id -> (epoch, weakref)
        self.free = []  # (virtual id, epoch of release), oldest first
        self.counter = 0
        self.recycled = 0  # how many identities were handed out a second time

    def _fresh(self):
        self.counter += 1
        return 0x7000_0000_0001 + 16 * self.counter

    def born(self, obj):
        """stamp: obj was created just now (call from a constructor hook, before anything asks for its id)"""
        self.epoch += 1
        rid = _real_id(obj)
        try:
            self.birth[rid] = (self.epoch, weakref.ref(obj))
        except TypeError:
            pass

    def _release(self, rid, vid):
        self.epoch += 1
        if self.map.get(rid, (None,))[0] == vid:
            del self.map[rid]
        self.birth.pop(rid, None)
        self.free.append((vid, self.epoch))

    def __call__(self, obj):
        rid = _real_id(obj)
        e = self.map.get(rid)
        if e is not None and e[1]() is obj:
            return e[0]
        b = self.birth.get(rid)
        birth = b[0] if b is not None and b[1]() is obj else None
        vid = None
        if self.recycle and birth is not None:
            for i in range(len(self.free) - 1, -1, -1):
                if self.free[i][1] < birth:
                    vid = self.free.pop(i)[0]
                    self.recycled += 1
                    break
        if vid is None:
            vid = self._fresh()
        try:
            ref = weakref.ref(obj, lambda r, rid=rid, vid=vid: self._release(rid, vid))
        except TypeError:
            return rid
        self.map[rid] = (vid, ref)
        return vid


KRROOD_MODULES = ("krrood.ormatic.dao", "krrood.entity_query_language.symbol_graph",
                  "krrood.entity_query_language.hashed_data", "krrood.entity_query_language.symbolic",
                  "krrood.entity_query_language.utils", "krrood.class_diagrams.class_diagram",
                  "krrood.entity_query_language.predicate")


class installed:
    """context manager: krrood's modules resolve `id` to the adversary while it is active"""

    def __init__(self, adversary, modules=KRROOD_MODULES):
        self.adv = adversary
        self.modules = modules

    def __enter__(self):
        import importlib
        self.mods = [importlib.import_module(m) for m in self.modules]
        for m in self.mods:
            m.__dict__["id"] = self.adv
        return self.adv

    def __exit__(self, *a):
        for m in self.mods:
            m.__dict__.pop("id", None)
        return False
