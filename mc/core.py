"""
Shared runner machinery: sharded exhaustive execution, evidence writing, known-findings matching,
VIOLATION / KNOWN-FINDING reporting, replay files.

A check module (checks/cXX.py) exposes

    PROPERTY = "C09"
    LEVEL    = "model_checking"
    def cases(tier, seed) -> list            # the whole bounded space, deterministic, picklable
    def run_case(case) -> CaseResult         # executes the REAL krrood code on one element + the oracle
    def classify(case, failure) -> str|None  # optional: structural signature of a failure (known findings)
    def finish(run)                          # optional: anti-vacuity floors, extra coverage keys
    def repro(case) -> str                   # optional: self-contained reproduction script text

and `mc.core.main(module)` does the rest.
"""
from __future__ import annotations

import hashlib
import json
import multiprocessing as mp
import os
import random
import subprocess
import sys
import time
import traceback
from collections import Counter
from dataclasses import dataclass, field
from typing import Any, Callable, Dict, Iterable, List, Optional

VERIF = os.path.dirname(os.path.dirname(os.path.abspath(__file__)))
REPO = os.environ.get("KRROOD_REPO", "/repo")
EVIDENCE_DIR = os.path.join(VERIF, "evidence")
REPLAY_DIR = os.path.join(VERIF, "replays")
KNOWN_FINDINGS = os.path.join(VERIF, "known_findings.json")
SCHEMA = os.path.join(VERIF, "schemas", "EVIDENCE.schema.json")


class HarnessError(Exception):
    """The harness itself misbehaved (exit 2, never a VIOLATION)."""


@dataclass
class Failure:
    kind: str  # e.g. "unsound-row", "missing-row", "crash", ...
    detail: str  # human readable observed vs expected
    signature: Optional[str] = None  # filled by classify()
    case: Any = None  # the (possibly narrowed) failing case, for the report
    run_case: Any = None  # the element of the case list that run_case() was called with (what a replay re-runs)

    def to_json(self):
        return {"kind": self.kind, "detail": self.detail, "signature": self.signature,
                "case": jsonable(self.case)}


@dataclass
class CaseResult:
    """What one execution of the real code produced."""
    failures: List[Failure] = field(default_factory=list)
    nontrivial_key: Any = None  # hashable; None = trivial. Distinct keys are counted.
    outcome_key: Any = None  # hashable summary of the observed outcome (distinct outcomes counted)
    states: Iterable[Any] = ()  # hashable state snapshots visited (model checking levels)
    transitions: int = 0
    features: Iterable[str] = ()  # coverage counters to bump
    evaluations: int = 1
    sample: Any = None  # JSON-able rendering of the case, kept for a few


def jsonable(x):
    try:
        json.dumps(x)
        return x
    except Exception:
        if isinstance(x, (list, tuple)):
            return [jsonable(i) for i in x]
        if isinstance(x, dict):
            return {str(k): jsonable(v) for k, v in x.items()}
        if isinstance(x, (set, frozenset)):
            return sorted((jsonable(i) for i in x), key=repr)
        return repr(x)


def _hash(x) -> str:
    return hashlib.sha1(repr(x).encode()).hexdigest()[:16]


# ---------------------------------------------------------------------------------------------
# worker side


_MODULE = None
_OPEN_SIGS = frozenset()


def _worker_chunk(args):
    chunk, mutant = args
    mod = _MODULE
    out = dict(failures=[], nontrivial=set(), outcomes=set(), states=set(), transitions=0,
               features=Counter(), evaluations=0, samples=[], errors=[])
    for case in chunk:
        try:
            r = mod.run_case(case)
        except HarnessError as e:
            out["errors"].append(f"{case!r}: {e}")
            continue
        except Exception:
            out["errors"].append(f"{case!r}: {traceback.format_exc()}")
            continue
        out["evaluations"] += r.evaluations
        if r.nontrivial_key is not None:
            out["nontrivial"].add(_hash(r.nontrivial_key))
        if r.outcome_key is not None:
            out["outcomes"].add(_hash(r.outcome_key))
        for s in r.states:
            out["states"].add(_hash(s))
        out["transitions"] += r.transitions
        for f in r.features:
            out["features"][f] += 1
        if r.sample is not None and len(out["samples"]) < 2:
            out["samples"].append(jsonable(r.sample))
        elif "fallback" not in out:
            out["fallback"] = {"case": repr(case)[:600]}
        for f in r.failures:
            f.run_case = case
            f.case = case if f.case is None else f.case
            if f.signature is None and hasattr(mod, "classify"):
                try:
                    f.signature = mod.classify(f.case, f)
                except Exception:
                    f.signature = None
            if f.signature in _OPEN_SIGS:
                if out["features"]["failure:" + f.signature] < 3:
                    out["failures"].append(f)
            elif len(out["failures"]) < 200:
                out["failures"].append(f)
            out["features"]["failure:" + (f.signature or "UNCLASSIFIED:" + f.kind)] += 1
    return out


def _init_worker(mod_name, mutant):
    global _MODULE, _OPEN_SIGS
    import importlib
    _MODULE = importlib.import_module(mod_name)
    _OPEN_SIGS = frozenset(e["signature"] for e in load_known_findings(_MODULE.PROPERTY)
                           if e.get("status") == "open")
    if hasattr(_MODULE, "init_worker"):
        _MODULE.init_worker()
    if mutant:
        _MODULE.apply_mutant(mutant)


# ---------------------------------------------------------------------------------------------
# parent side


@dataclass
class Run:
    property_id: str
    level: str
    tier: str
    seed: int
    rule: str = ""
    bounds: Dict[str, Any] = field(default_factory=dict)
    assumptions: List[str] = field(default_factory=list)
    evaluations: int = 0
    nontrivial: set = field(default_factory=set)
    outcomes: set = field(default_factory=set)
    states: set = field(default_factory=set)
    transitions: int = 0
    features: Counter = field(default_factory=Counter)
    samples: List[Any] = field(default_factory=list)
    failures: List[Failure] = field(default_factory=list)
    errors: List[str] = field(default_factory=list)
    exhaustive: bool = True
    cases_total: int = 0
    cases_done: int = 0
    extra: Dict[str, Any] = field(default_factory=dict)
    t0: float = field(default_factory=time.time)

    def merge(self, out):
        self.evaluations += out["evaluations"]
        self.nontrivial |= out["nontrivial"]
        self.outcomes |= out["outcomes"]
        self.states |= out["states"]
        self.transitions += out["transitions"]
        self.features.update(out["features"])
        for s in out["samples"]:
            if len(self.samples) < 5:
                self.samples.append(s)
        if "fallback" in out and not self.extra.get("_fallback_sample"):
            self.extra["_fallback_sample"] = out["fallback"]
        self.failures.extend(out["failures"])
        self.errors.extend(out["errors"])


def load_known_findings(property_id):
    if not os.path.exists(KNOWN_FINDINGS):
        return []
    with open(KNOWN_FINDINGS) as f:
        data = json.load(f)
    return [e for e in data.get("findings", []) if e["property"] == property_id]


def write_evidence(run: Run, violations: int, scratch: bool = False):
    cov = {
        "evaluations": run.evaluations,
        "distinct_nontrivial": len(run.nontrivial),
        "rule": run.rule,
        "samples": run.samples[:5],
        "exhaustive": run.exhaustive,
        "bounds": run.bounds,
        "cases_total": run.cases_total,
        "cases_done": run.cases_done,
        "distinct_outcomes": len(run.outcomes),
        "features": {k: v for k, v in sorted(run.features.items())},
    }
    if run.level == "model_checking":
        cov["states"] = len(run.states)
        cov["transitions"] = run.transitions
        cov["traces_validated_against_impl"] = run.cases_done
    if run.level == "translation_validation":
        cov["programs"] = run.extra.pop("programs", run.cases_done)
        cov["disagreements_checked"] = run.extra.pop("disagreements_checked", run.evaluations)
    fb = run.extra.pop("_fallback_sample", None)
    if not cov["samples"] and fb is not None:
        cov["samples"] = [fb]
    cov.update(run.extra)
    ev = {
        "property_id": run.property_id,
        "tier": run.tier,
        "seed": run.seed,
        "level": run.level,
        "coverage": cov,
        "assumptions": run.assumptions,
        "wall_s": round(time.time() - run.t0, 2),
        "violations": violations,
    }
    edir = os.path.join(EVIDENCE_DIR, ".scratch") if scratch else EVIDENCE_DIR
    os.makedirs(edir, exist_ok=True)
    path = os.path.join(edir, f"{run.property_id}.json")
    tmp = path + f".{os.getpid()}.tmp"
    with open(tmp, "w") as f:
        json.dump(ev, f, indent=1, sort_keys=False)
    os.replace(tmp, path)
    if not scratch:
        validate_evidence(path)  # replays of a single case / mutant runs write scratch evidence that need not meet the floors
    return path


def validate_evidence(path):
    """jsonschema lives in the tooling venv only."""
    code = ("import json,sys,jsonschema;"
            "jsonschema.validate(json.load(open(sys.argv[1])), json.load(open(sys.argv[2])))")
    try:
        p = subprocess.run(["python3-vt", "-c", code, path, SCHEMA], capture_output=True, text=True,
                           timeout=120)
    except FileNotFoundError:
        print("note: python3-vt not found, evidence not schema-validated", file=sys.stderr)
        return
    if p.returncode != 0:
        raise HarnessError("evidence file does not validate: " + p.stderr[-2000:])


def write_replay(mod, run: Run, f: Failure) -> str:
    d = os.path.join(REPLAY_DIR, run.property_id)
    os.makedirs(d, exist_ok=True)
    body = {"property": run.property_id, "case": jsonable(f.case), "case_repr": repr(f.case),
            "run_case_repr": repr(f.run_case if f.run_case is not None else f.case),
            "kind": f.kind, "signature": f.signature, "detail": f.detail}
    if hasattr(mod, "repro"):
        try:
            body["repro_py"] = mod.repro(f.case)
        except Exception as e:  # pragma: no cover
            body["repro_py"] = f"# repro generation failed: {e}"
    path = os.path.join(d, _hash((f.case, f.kind)) + ".json")
    with open(path, "w") as fh:
        json.dump(body, fh, indent=1)
    return path


def report(mod, run: Run, scratch: bool = False) -> int:
    """Match failures against known findings, print lines, write evidence. Returns exit code."""
    known = load_known_findings(run.property_id)
    open_by_sig = {e["signature"]: e for e in known if e.get("status") == "open"}
    hit = Counter()
    unknown: List[Failure] = []
    for f in run.failures:
        if f.signature in open_by_sig:
            hit[f.signature] += 1
        else:
            unknown.append(f)
    # counts of all classified failures (not only the retained ones)
    for sig, e in open_by_sig.items():
        n = run.features.get("failure:" + sig, 0)
        if n:
            print(f"KNOWN-FINDING: property={run.property_id} {e['id']}: {e['what_fails']} "
                  f"[{n} cases in this run; example: {e.get('example')}]")
    total_unknown = sum(v for k, v in run.features.items()
                        if k.startswith("failure:") and k[len("failure:"):] not in open_by_sig)
    run.extra["known_finding_cases"] = {s: run.features.get("failure:" + s, 0) for s in open_by_sig}
    code = 0
    if run.errors:
        for e in run.errors[:5]:
            print("HARNESS-ERROR:", e, file=sys.stderr)
        code = 2
    if unknown or total_unknown:
        seen = set()
        shown = 0
        for f in unknown:
            key = (f.signature, f.kind)
            if key in seen and shown >= 3:
                continue
            seen.add(key)
            path = write_replay(mod, run, f)
            if shown < 12:
                print(f"VIOLATION property={run.property_id} replay={path}")
                print(f"  kind={f.kind} signature={f.signature} case={f.case!r}\n  {f.detail}")
            shown += 1
        code = 1  # a reported violation decides the exit code, also when some other cases could not be judged
    write_evidence(run, total_unknown, scratch=scratch)
    return code


def chunked(seq, n):
    for i in range(0, len(seq), n):
        yield seq[i:i + n]


def execute(mod, tier: str, seed: int, mutant: Optional[str] = None, workers: Optional[int] = None,
            only_cases=None) -> Run:
    run = Run(mod.PROPERTY, mod.LEVEL, tier, seed)
    run.rule = getattr(mod, "RULE", "")
    run.assumptions = list(getattr(mod, "ASSUMPTIONS", []))
    cases = only_cases if only_cases is not None else mod.cases(tier, seed)
    if not isinstance(cases, list):
        cases = list(cases)
    run.bounds = dict(getattr(mod, "BOUNDS", {}).get(tier, {}))
    run.cases_total = len(cases)
    # VERIF_SEED only permutes the visiting order, never what is covered
    order = list(range(len(cases)))
    random.Random(seed).shuffle(order)
    cases = [cases[i] for i in order]
    workers = workers or int(os.environ.get("VERIF_WORKERS", min(16, os.cpu_count() or 1)))
    chunk = getattr(mod, "CHUNK", 200)
    recycle = getattr(mod, "RECYCLE_CHUNKS", 8)
    budget = getattr(mod, "BUDGET_S", {}).get(tier, 3600)
    jobs = [(c, mutant) for c in chunked(cases, chunk)]
    if workers <= 1 or len(cases) <= 4 or getattr(mod, "SERIAL", False):
        _init_worker(mod.__name__, mutant)
        for j in jobs:
            if time.time() - run.t0 > budget:
                run.exhaustive = False
                break
            out = _worker_chunk(j)
            run.merge(out)
            run.cases_done += len(j[0])
    else:
        ctx = mp.get_context("fork")
        with ctx.Pool(workers, initializer=_init_worker, initargs=(mod.__name__, mutant),
                      maxtasksperchild=recycle) as pool:
            it = pool.imap_unordered(_worker_chunk, jobs)
            sizes = len(cases)
            done_jobs = 0
            for out in it:
                run.merge(out)
                done_jobs += 1
                run.cases_done = min(sizes, done_jobs * chunk)
                if time.time() - run.t0 > budget:
                    run.exhaustive = False
                    pool.terminate()
                    break
    if run.exhaustive:
        run.cases_done = run.cases_total
    if hasattr(mod, "finish") and only_cases is None and not run.errors:
        mod.finish(run)  # anti-vacuity floors apply to whole runs, not to the replay of one case
    return run


def main(mod, argv=None):
    import argparse
    ap = argparse.ArgumentParser()
    ap.add_argument("--tier", default=os.environ.get("VERIF_TIER", "quick"), choices=["quick", "thorough"])
    ap.add_argument("--replay")
    ap.add_argument("--mutant")
    ap.add_argument("--list-mutants", action="store_true")
    ap.add_argument("--workers", type=int)
    a = ap.parse_args(argv)
    seed = int(os.environ.get("VERIF_SEED", "0"))
    if a.list_mutants:
        print("\n".join(getattr(mod, "MUTANTS", {})))
        return 0
    only = None
    if a.replay:
        with open(a.replay) as f:
            body = json.load(f)
        only = [eval(body.get("run_case_repr") or body["case_repr"], {"inf": float("inf"), "nan": float("nan")})]
    # every temporary file of the run (generated ORM modules, sqlite files, ...) lives in one directory that is removed
    # when the run ends, whatever happens to the worker processes
    import shutil, tempfile
    rundir = tempfile.mkdtemp(prefix="krrood_verif_run_")
    os.environ["TMPDIR"] = rundir
    tempfile.tempdir = rundir
    try:
        run = execute(mod, a.tier, seed, mutant=a.mutant, workers=a.workers, only_cases=only)
        # evidence of record is only written by whole runs against /repo itself (not mutants, replays or other trees)
        code = report(mod, run, scratch=bool(a.mutant or a.replay or os.path.realpath(REPO) != "/repo"))
    except HarnessError as e:
        print("HARNESS-ERROR:", e, file=sys.stderr)
        return 2
    finally:
        tempfile.tempdir = None
        os.environ.pop("TMPDIR", None)
        shutil.rmtree(rundir, ignore_errors=True)
    dt = time.time() - run.t0
    print(f"{mod.PROPERTY} tier={a.tier} seed={seed} cases={run.cases_done}/{run.cases_total} "
          f"evaluations={run.evaluations} nontrivial={len(run.nontrivial)} outcomes={len(run.outcomes)} "
          f"states={len(run.states)} transitions={run.transitions} exhaustive={run.exhaustive} "
          f"wall={dt:.1f}s exit={code}")
    return code
