"""
C05 - persisting to SQL and reloading in a fresh session restores the object graph.

E1 over object graphs (curated model) and over generated models with canonical populations: to_dao with one state ->
session.add_all -> commit -> close -> NEW Session on the same engine -> select through the object's own DAO class and
every DAO base class -> from_dao with one state; oracle = identity-aware isomorphism (collections as multisets, the
statement says "contain the same elements") and row counts per table.
"""
from __future__ import annotations

import itertools

from mc import idadv
from mc.core import CaseResult, Failure, HarnessError
from checks import ormgen, ormgraphs
from oracles import iso

PROPERTY = "C05"
LEVEL = "exploration"
RULE = ("(1) object graphs of the three curated families (no repeated element inside one collection), every node loaded "
        "through its own DAO class and through every DAO base class in a second Session; (2) every generated model of "
        "the C06 grammar with <=2 classes (and 3 classes in the thorough tier) populated with two instances per class "
        "wired in every way its reference fields allow (<=64 wirings per model); the reloaded graph must be isomorphic to "
        "the original (polymorphic classes, scalars type-exact, JSON lists in order, relationship collections as sets, "
        "sharing preserved) and every table must hold one row per distinct object of its class. "
        "non-trivial = graphs in which some object is referenced more than once")
ASSUMPTIONS = ["in-memory SQLite through krrood.ormatic.utils.create_engine (real JSON (de)serialiser path); one fresh engine per graph",
               "a collection holding the same element twice is outside the statement (an association table cannot record it)"]
BOUNDS = {"quick": {"curated_graphs": "every 6th wiring with a back reference + all vec/carrier/alt-parent graphs",
                    "generated_models_classes": 2, "wirings_per_model": 32},
          "thorough": {"curated_graphs": "all", "generated_models_classes": 3, "wirings_per_model": 64}}
CHUNK = 40
RECYCLE_CHUNKS = 8
BUDGET_S = {"quick": 1200, "thorough": 9000}

_ORM = [None]


def init_worker():
    from models import ormmodel as M
    from sqlalchemy.orm import configure_mappers
    text = ormgen.generate_orm_source(M.CLASSES, alternative_mappings=M.ALTERNATIVE_MAPPINGS, type_mappings=M.TYPE_MAPPINGS)
    _ORM[0] = ormgen.load_orm(text, prefix="vorm05")
    configure_mappers()


def cases(tier, seed):
    out = []
    specs = ormgraphs.family_items_holders("quick", no_repeats=True)
    if tier == "quick":
        specs = specs[::12]
    out += [("curated", s) for s in specs]
    out += [("curated", s) for s in ormgraphs.family_vec_carrier(tier, no_repeats=True)]
    out += [("curated", s) for s in ormgraphs.family_alt_parent(tier, no_repeats=True)]
    out += [("curated", s) for s in ormgraphs.family_drawing(tier, no_repeats=True)]
    out += [("curated", s) for s in ormgraphs.family_alt_group(tier, no_repeats=True)]
    out += [("curated", s) for s in ormgraphs.family_bags(tier, no_repeats=True)]
    teams = ormgraphs.family_teams(tier, no_repeats=True)
    out += [("curated", s) for s in (teams[::4] if tier == "quick" else teams)]
    # generated models
    from checks import c06
    seen = set()
    CAP[0] = 32 if tier == "quick" else 64
    for c6 in c06.cases("quick", seed):
        if c6[0] == "determinism":
            continue
        model, order, mi = c6
        if len(model[1]) > BOUNDS[tier]["generated_models_classes"]:
            continue
        if model in seen:
            continue
        seen.add(model)
        if tier == "quick" and len(model[1]) == 2 and mi % 3:
            continue
        out.append(("generated", model))
    return out


def dao_chain(dao_cls):
    from krrood.ormatic.dao import DataAccessObject
    return [c for c in dao_cls.__mro__ if isinstance(c, type) and issubclass(c, DataAccessObject)
            and c is not DataAccessObject and hasattr(c, "__tablename__")]


def roundtrip(objs, orm, label, res, case):
    """objs: dict name -> object. Persists all, reloads each through every DAO class of its chain."""
    listen_births(orm)
    import sqlalchemy
    from sqlalchemy import select, func
    from sqlalchemy.orm import Session
    from krrood.ormatic.dao import to_dao, ToDAOState, FromDAOState
    from krrood.ormatic.utils import create_engine
    eng = create_engine("sqlite:///:memory:")
    try:
        orm.Base.metadata.create_all(eng)
        state = ToDAOState()
        try:
            daos = {n: to_dao(o, state) for n, o in objs.items()}
            with Session(eng) as s:
                s.add_all(list(daos.values()))
                s.commit()
                pks = {n: (type(d), d.database_id) for n, d in daos.items()}
        except Exception as e:
            res.failures.append(Failure("persist-crash", f"{label}: {type(e).__name__}: {str(e)[:250]}", case=case))
            return
        # row counts: one row per distinct object on every level of its class's table chain
        expected_rows = {}
        for d in {id(v): v for v in state.memo.values()}.values():
            for c in dao_chain(type(d)):
                expected_rows[c.__tablename__] = expected_rows.get(c.__tablename__, 0) + 1
        with Session(eng) as s2:
            for table in orm.Base.metadata.tables.values():
                if table.name.endswith("_association"):
                    continue
                n = s2.execute(select(func.count()).select_from(table)).scalar()
                if n != expected_rows.get(table.name, 0):
                    res.failures.append(Failure("row-count", f"{label}: table {table.name} holds {n} rows for "
                                                             f"{expected_rows.get(table.name, 0)} distinct objects", case=case))
        if res.failures:
            return
        for n, o in objs.items():
            dcls, pk = pks[n]
            for via in dao_chain(dcls):
                res.evaluations += 1
                try:
                    with Session(eng) as s3:
                        row = s3.scalars(select(via).where(via.database_id == pk)).one()
                        back = row.from_dao(FromDAOState())
                        diff = iso.compare(o, back, ordered=False)
                except Exception as e:
                    res.failures.append(Failure("reload-crash", f"{label}; {n} via {via.__name__}: {type(e).__name__}: {str(e)[:250]}", case=case))
                    continue
                if diff:
                    res.failures.append(Failure("not-isomorphic", f"{label}; {n} loaded via {via.__name__}: {diff}", case=case))
                    return
            # the same reload when the identity of every dead object is handed to the next object born (mc/idadv.py)
            res.evaluations += 1
            _ADV[0] = idadv.IdAdversary(recycle=True)
            try:
                with idadv.installed(_ADV[0]), Session(eng) as s4:
                    row = s4.scalars(select(dcls).where(dcls.database_id == pk)).one()
                    back = row.from_dao(FromDAOState())
                    diff = iso.compare(o, back, ordered=False)
                if _ADV[0].recycled:
                    res.features = set(res.features or ()) | {"identity-recycled"}
            except Exception as e:
                res.failures.append(Failure("reload-crash", f"{label}; {n} via {dcls.__name__} [identities of dead objects are "
                                                            f"reused at once]: {type(e).__name__}: {str(e)[:250]}", case=case))
                continue
            finally:
                _ADV[0] = None
            if diff:
                res.failures.append(Failure("not-isomorphic", f"{label}; {n} loaded via {dcls.__name__} [identities of dead "
                                                              f"objects are reused at once]: {diff}", case=case))
                return
    finally:
        eng.dispose()


CAP = [32]
_ADV = [None]
_LISTENING = set()


def listen_births(orm):
    """stamp the birth of every DAO that is constructed (not loaded) while an identity adversary is active"""
    from sqlalchemy import event
    if id(orm.Base) in _LISTENING:
        return
    _LISTENING.add(id(orm.Base))

    def on_init(target, args, kwargs):
        if _ADV[0] is not None:
            _ADV[0].born(target)
    event.listen(orm.Base, "init", on_init, propagate=True)


def populations(model, cls_by_name):
    """two instances per class, every wiring of the reference fields (capped at 64, deterministic stride)"""
    names = [c[0] for c in model[1]]
    by = {c[0]: c for c in model[1]}

    def all_fields(n):
        out = []
        c = by[n]
        if c[1]:
            out += all_fields(c[1])
        return out + list(c[2])
    inst = [(f"{n.lower()}{k}", n) for n in names for k in (0, 1)]

    def instances_of(t):
        return [iname for iname, n in inst if issubclass(cls_by_name[n], cls_by_name[t])]
    slots = []
    for iname, n in inst:
        for fname, kind, target in all_fields(n):
            if kind in ("ref", "opt_ref"):
                opts = [None] + instances_of(target)
            elif kind == "list_ref":
                cands = instances_of(target)
                opts = [()] + [(c,) for c in cands] + [tuple(cands)] if len(cands) > 1 else [()] + [(c,) for c in cands]
            else:
                continue
            slots.append((iname, fname, kind, opts))
    total = 1
    for s in slots:
        total *= len(s[3])
    stride = max(1, total // CAP[0])
    out = []
    for idx in range(0, total, stride):
        choice = []
        rem = idx
        for s in slots:
            choice.append(s[3][rem % len(s[3])])
            rem //= len(s[3])
        out.append((inst, slots, tuple(choice)))
        if len(out) >= CAP[0]:
            break
    return out


def build_population(pop, cls_by_name, model):
    inst, slots, choice = pop
    objs = {}
    k = 0
    for iname, n in inst:
        k += 1
        o = cls_by_name[n]()
        # distinct scalar values so that rows are distinguishable
        for f in ("n", "o"):
            if hasattr(o, f):
                setattr(o, f, k)
        if hasattr(o, "f"):
            o.f = k + 0.5
        if hasattr(o, "tags"):
            o.tags = [iname, "x"]
        if hasattr(o, "nums"):
            o.nums = [k, k]
        if hasattr(o, "s"):
            o.s = iname
        objs[iname] = o
    for (iname, fname, kind, opts), c in zip(slots, choice):
        if kind == "list_ref":
            setattr(objs[iname], fname, [objs[x] for x in c])
        else:
            setattr(objs[iname], fname, objs[c] if c is not None else None)
    return objs


def run_case(case):
    from sqlalchemy.orm import configure_mappers
    res = CaseResult(evaluations=0)
    CAP[0] = 32 if len(case) < 3 else case[2]
    kind = case[0]
    if kind == "curated":
        spec = case[1]
        label = ormgraphs.show(spec)
        objs = ormgraphs.build(spec)
        roundtrip(objs, _ORM[0], label, res, case)
        from checks.c04 import has_sharing_or_cycle
        if has_sharing_or_cycle(spec):
            res.nontrivial_key = case
        res.features = set(res.features or ()) | {"curated"} | {n[1] for n in spec}
        if not res.failures and res.nontrivial_key:
            res.sample = {"graph": label}
        res.outcome_key = ("curated", len(res.failures))
        return res
    # generated model
    from models import gen
    model = case[1]
    mod = orm = None
    label0 = f"model {[(c[0], c[1], [f for f in c[2] if f[1] in ('ref', 'opt_ref', 'list_ref')]) for c in model[1]]}"
    try:
        mod, cls_by_name, src = gen.load(model, prefix="vgen05")
        names = [c[0] for c in model[1]]
        text = ormgen.generate_orm_source([cls_by_name[n] for n in names])
        # the curated ORM module must stay usable: generated DAOs live in their own module / Base
        orm = ormgen.load_orm(text, prefix="vorm05g")
        configure_mappers()
        pops = populations(model, cls_by_name)
        for pi, pop in enumerate(pops):
            objs = build_population(pop, cls_by_name, model)
            wiring = [(s[0], s[1], c) for s, c in zip(pop[1], pop[2])]
            roundtrip(objs, orm, f"{label0} wiring {wiring}", res, case)
            if res.failures:
                break
        res.features = set(res.features or ()) | {"generated", "classes:%d" % len(names)}
        if any(f[1] in ("ref", "opt_ref", "list_ref") for c in model[1] for f in c[2]):
            res.nontrivial_key = case
        res.outcome_key = ("generated", len(pops), len(res.failures))
        if not res.failures and res.nontrivial_key:
            res.sample = {"model": label0, "populations": len(pops)}
        return res
    except HarnessError:
        raise
    except Exception as e:
        res.failures.append(Failure("generated-model-crash", f"{label0}: {type(e).__name__}: {str(e)[:250]}", case=case))
        return res
    finally:
        # forget the generated modules only: clearing the mappers would also drop the curated model's mappers. The
        # generated DAO classes stay registered in their own declarative Base until the worker is recycled.
        import sys
        from krrood.ormatic import dao
        for m in (orm, mod):
            if m is not None:
                sys.modules.pop(m.__name__, None)
        dao.get_dao_class.cache_clear()
        dao.get_alternative_mapping.cache_clear()


def classify(case, failure):
    # the same open finding as C04-F3 (from_dao is the same code after a reload)
    if case and case[0] == "curated":
        from checks import c04_findings
        # relationship collections are compared as sets here, so the first difference found on such a graph is reported
        # either as a sharing difference or as an element without a match
        if failure.kind == "not-isomorphic" and c04_findings.alt_to_alt_reference_on_a_cycle(case[1]) and (
                "sharing structure differs" in failure.detail or "no matching element in the copy" in failure.detail):
            return "C05/cycle-through-reference-between-alternatively-mapped-objects"
    return None


def cluster_key(case, f):
    return (case[0], f.kind, f.detail.split(": ")[-1][:100])


def finish(run):
    if run.exhaustive and not run.failures:
        for k in ("curated", "generated", "OVec", "OAltChild", "OTeam", "OAltGroup"):
            if not run.features.get(k):
                raise HarnessError("vacuous: " + k)


def repro(case):
    return f"""# C05 replay
import sys; sys.path.insert(0, '/verif')
from checks import c05
c05.init_worker()
for f in c05.run_case({case!r}).failures: print(f.kind, f.detail)
"""


def _m_poly_identity_parent():
    from krrood.ormatic import wrapped_table as WT
    orig = WT.WrappedTable.create_mapper_args
    def patched(self):
        orig(self)
        if self.parent_table is not None and self.parent_table.parent_table is None and "Sub" in self.tablename:
            self.mapper_args["'polymorphic_identity'"] = f"'{self.parent_table.tablename}'"
            # rows of the subclass carry the identity of the parent class
    WT.WrappedTable.create_mapper_args = patched


def _m_no_remote_side():
    from krrood.ormatic import wrapped_table as WT
    WT.WrappedTable.shares_inheritance_chain_with = lambda self, other: False


def _m_no_post_update():
    from krrood.ormatic import wrapped_table as WT
    orig = WT.WrappedTable.create_one_to_one_relationship
    def patched(self, wrapped_field):
        orig(self, wrapped_field)
        r = self.relationships[-1]
        r.constructor = r.constructor.replace(", post_update=True", "")
    WT.WrappedTable.create_one_to_one_relationship = patched


def _m_assoc_swapped():
    from krrood.ormatic import wrapped_table as WT
    orig = WT.WrappedTable.create_one_to_many_relationship
    def patched(self, wrapped_field):
        orig(self, wrapped_field)
        t = self.ormatic.association_tables[-1]
        if t.left_table_name != t.right_table_name and wrapped_field.field.name == "many":
            t.left_primary_key, t.right_primary_key = t.right_primary_key, t.left_primary_key
    WT.WrappedTable.create_one_to_many_relationship = patched


def _m_temp_parent_dao_freed():
    from checks import c04
    c04._m_temp_parent_dao_freed()


MUTANTS = {"temp_parent_dao_freed": _m_temp_parent_dao_freed, "poly_identity_parent": _m_poly_identity_parent, "no_remote_side": _m_no_remote_side,
           "no_post_update": _m_no_post_update}


def apply_mutant(name):
    ormgen.cleanup(_ORM[0])
    MUTANTS[name]()
    init_worker()
