"""
C13 - domain-less variables range over exactly the live instances of their type.

E2 (stateless, no de-duplication): all histories of create / drop / sweep / query / clear to a depth over a diamond
class hierarchy, from several start states; every query in the history and a final query per type are compared with
the harness's own weak-reference census.
"""
from __future__ import annotations

import gc
import itertools
import weakref

from mc.core import CaseResult, Failure, HarnessError
from mc import idadv

PROPERTY = "C13"
LEVEL = "model_checking"
RULE = ("all operation sequences to the stated depth over {new(A|B|C|D|E), drop(oldest|newest), sweep, query(T), clear} "
        "on the hierarchy A, B(A), C(A), D(B,C), E(D) (instances of D and E are falsy, like an empty container), from the empty state and from pre-populated states (replayed, "
        "nothing copied); every query and a final query for every type is compared, as a multiset of object ids, with "
        "the live instances created since the last clear according to the harness's weak references. No state "
        "de-duplication (the future depends on rustworkx's free list and CPython address reuse). "
        "non-trivial = histories in which an instance died and a later instance was created")
ASSUMPTIONS = ["CPython reference counting reclaims an unreferenced instance immediately; gc.collect() runs before the "
               "final census", "clear() is the documented reset: instances created before it are not expected afterwards",
               "instances a query has yielded may be kept alive by krrood itself (C20's subject); the census measures "
               "actual liveness, so C13 stays silent about that"]
BOUNDS = {"quick": {"depth_from_empty": 5, "depth_from_prepopulated": 4, "alphabet": 10, "depth_under_identity_adversary": 4,
                    "depth_declared_queries": 5},
          "thorough": {"depth_from_empty": 6, "depth_from_prepopulated": 5, "alphabet": 12, "depth_under_identity_adversary": 5,
                       "depth_declared_queries": 6}}
CHUNK = 400
RECYCLE_CHUNKS = 6
BUDGET_S = {"quick": 900, "thorough": 8000}

OPS_QUICK = [("new", "A"), ("new", "B"), ("new", "D"), ("drop", "oldest"), ("drop", "newest"), ("sweep",),
             ("query", "A"), ("query", "B"), ("query", "D"), ("clear",)]
OPS_THOROUGH = OPS_QUICK + [("new", "C"), ("new", "E")]
STARTS = [(), (("new", "A"), ("new", "A")), (("new", "B"), ("new", "A"), ("new", "D")),
          (("new", "D"), ("new", "E"), ("new", "C"), ("query", "C"))]


def cases(tier, seed):
    b = BOUNDS[tier]
    ops = OPS_QUICK if tier == "quick" else OPS_THOROUGH
    out = []
    for si, start in enumerate(STARTS):
        depth = b["depth_from_empty"] if not start else b["depth_from_prepopulated"]
        for k in range(0, depth + 1):
            for seq in itertools.product(ops, repeat=k):
                out.append((start, seq))
    # queries that are declared early, evaluated later or several times, or left open while instances come and go
    for k in range(2, b["depth_declared_queries"] + 1):
        for seq in itertools.product(DECLARED_OPS, repeat=k):
            if not any(o[0] in ("query_declared", "drain_open") for o in seq) or not any(o[0] in ("declare", "open") for o in seq):
                continue
            out.append(("declared", seq))
    # the same histories when the allocator hands the identity of every dead instance to the next instance born
    # (mc/idadv.py), wherever an instance is born after another one died and before the next sweep / query / clear
    for start, seq in [c for c in out if c[0] != "declared"]:
        if len(seq) <= b["depth_under_identity_adversary"] and reuse_possible(start + seq):
            out.append((start, seq, "recycled"))
    return out


DECLARED_OPS = [("new", "A"), ("new", "B"), ("new_late",), ("drop", "newest"), ("drop", "oldest"), ("declare", "A"),
                ("query_declared", "A"), ("open", "A"), ("drain_open",)]
_LATE = [0]


def run_declared(case):
    """a query over let(HA, None) that is declared before the instances (and even a subclass) exist, evaluated later and
    repeatedly; an iterator that is left open while instances are created and dropped"""
    from krrood.entity_query_language.symbol_graph import SymbolGraph
    from krrood.entity_query_language.entity import entity, let
    from krrood.entity_query_language.quantify_entity import an
    from dataclasses import dataclass
    _, seq = case
    res = CaseResult()
    SymbolGraph().clear()
    SymbolGraph()
    live, census = [], []
    declared = None
    declared_evaluations = 0
    changed_since_first_evaluation = False
    opened = None  # (iterator, ids alive when it was opened, results so far)
    counter = 0
    feats = {"declared"}

    def alive():
        return {id(r()): n for n, r in census if r() is not None}

    for i, op in enumerate(seq):
        where = f"declared-queries: after {seq[:i + 1]}"
        res.transitions += 1
        try:
            k = op[0]
            if k in ("new", "new_late"):
                counter += 1
                if k == "new_late":
                    _LATE[0] += 1
                    cls = dataclass(eq=False)(type(f"HLate{_LATE[0]}", (_H.HB,), {"__module__": _H.__name__}))
                    feats.add("late-subclass")
                else:
                    cls = _H.TYPES[op[1]]
                obj = cls(counter)
                live.append(obj)
                census.append((f"{cls.__name__.lower()}{counter}", weakref.ref(obj)))
                del obj
                changed_since_first_evaluation = changed_since_first_evaluation or declared_evaluations > 0
            elif k == "drop" and live:
                o = live.pop(-1 if op[1] == "newest" else 0)
                r = weakref.ref(o)
                del o
                if r() is None:
                    changed_since_first_evaluation = changed_since_first_evaluation or declared_evaluations > 0
            elif k == "declare" and declared is None:
                declared = an(entity(let(_H.HA, None)))
            elif k == "query_declared" and declared is not None:
                got = list(declared.evaluate())
                declared_evaluations += 1
                exp = alive()
                g = sorted(id(x) for x in got)
                bad_none = any(x is None for x in got)
                del got
                if g != sorted(exp):
                    f = Failure("declared-query-differs", f"{where}: the query declared earlier (evaluation #{declared_evaluations}) "
                                                          f"ranges over {[exp.get(x, '<dead or unknown>') for x in g]}, live instances are {sorted(exp.values())}")
                    f.sig_hint = "re-evaluated" if declared_evaluations > 1 and changed_since_first_evaluation else "first"
                    res.failures.append(f)
                    break
                if declared_evaluations > 1 and changed_since_first_evaluation:
                    feats.add("re-evaluated-after-change")
            elif k == "open" and opened is None:
                it = iter(an(entity(let(_H.HA, None))).evaluate())
                first = next(it, None)
                # remembered by census NAME: an instance born later can get the address (the id) of one that died meanwhile
                opened = (it, set(alive().values()), [first] if first is not None else [])
                first = None
            elif k == "drain_open" and opened is not None:
                it, at_open, sofar = opened
                rest = list(it)
                results = sofar + rest
                now = alive()
                names = [now.get(id(x), "<not a live instance>") if x is not None else "None" for x in results]
                must = {x for x, name in now.items() if name in at_open}
                ids = [id(x) for x in results if x is not None]
                del rest, sofar
                opened = None
                feats.add("drained-open-iterator")
                if any(x is None for x in results) or len(set(ids)) != len(ids) or not must <= set(ids) or any(x not in now for x in ids):
                    del results
                    res.failures.append(Failure("open-iterator-wrong", f"{where}: an iterator opened earlier and drained now yielded {names}; "
                                                                       f"instances alive the whole time: {sorted(now[x] for x in must)}"))
                    break
                del results
        except Exception as e:
            res.failures.append(Failure("crash", f"{where}: {type(e).__name__}: {e}"))
            break
    res.features = feats
    res.nontrivial_key = case
    res.outcome_key = ("declared", len(res.failures), len(live))
    del declared, opened
    live.clear()
    gc.collect()
    gc.freeze()
    return res


def reuse_possible(hist):
    dead_unswept = False
    for op in hist:
        if op[0] == "drop":
            dead_unswept = True
        elif op[0] in ("sweep", "query", "clear"):
            dead_unswept = False
        elif op[0] == "new" and dead_unswept:
            return True
    return False


_H = None


def init_worker():
    global _H
    from models import hier
    _H = hier
    # everything imported so far is immortal anyway: keep it out of the collector's way so that the per-case
    # gc.collect() only has to look at objects created by the case
    gc.collect()
    gc.freeze()


def query(T):
    from krrood.entity_query_language.entity import entity, let
    from krrood.entity_query_language.quantify_entity import an
    return list(an(entity(let(T, None))).evaluate())


_ADV = [None]
_HOOKED = [False]


def hook_births():
    """stamp the birth of every Symbol instance for the identity adversary (krrood registers an instance through the
    module-level function update_cache, which the harness wraps; no source change)"""
    if _HOOKED[0]:
        return
    _HOOKED[0] = True
    from krrood.entity_query_language import predicate as P
    orig = P.update_cache

    def update_cache(instance):
        if _ADV[0] is not None:
            _ADV[0].born(instance)
        return orig(instance)
    P.update_cache = update_cache


def run_case(case):
    if case[0] == "declared":
        return run_declared(case)
    if len(case) == 3:
        hook_births()
        _ADV[0] = idadv.IdAdversary(recycle=True)
        try:
            with idadv.installed(_ADV[0]):
                res = run_case_inner(case[:2], " [identities of dead instances are reused at once]")
            if _ADV[0].recycled:
                res.features = set(res.features or ()) | {"identity-recycled"}
            if res.nontrivial_key is not None:
                res.nontrivial_key = case
            return res
        finally:
            _ADV[0] = None
    return run_case_inner(case, "")


def run_case_inner(case, note):
    from krrood.entity_query_language.symbol_graph import SymbolGraph
    start, seq = case
    res = CaseResult()
    SymbolGraph().clear()
    SymbolGraph()
    live = []  # strong references the "user" holds: (name, obj)
    census = []  # (name, weakref, epoch)
    epoch = 0
    counter = 0
    died = reborn = False
    states = []

    def expected(T):
        return sorted(id(r()) for n, r, e in census if e == epoch and r() is not None and isinstance(r(), T))

    def observe(T, where):
        try:
            got = query(T)
        except Exception as e:
            res.failures.append(Failure("crash", f"{where}{note}: query({T.__name__}) raised {type(e).__name__}: {e}"))
            return False
        g = sorted(id(x) for x in got)
        exp = expected(T)
        names = {id(r()): n for n, r, e in census if r() is not None}
        del got
        if g != exp:
            show = lambda ids: [names.get(i, "<dead or unknown>") for i in ids]
            kind = "duplicate-instance" if len(set(g)) < len(g) and set(g) == set(exp) else \
                "missing-instance" if set(exp) - set(g) else "unexpected-instance"
            res.failures.append(Failure(kind, f"{where}{note}: let({T.__name__}, None) ranges over {show(g)}, "
                                              f"live instances are {show(exp)}"))
            return False
        return True

    hist = list(start) + list(seq)
    for i, op in enumerate(hist):
        k = op[0]
        where = f"after {hist[:i + 1]}"
        res.transitions += 1
        try:
            if k == "new":
                counter += 1
                obj = _H.TYPES[op[1]](counter)
                name = f"{op[1].lower()}{counter}"
                live.append((name, obj))
                census.append((name, weakref.ref(obj), epoch))
                reborn = reborn or died
                del obj
            elif k == "drop":
                if live:
                    name, obj = live.pop(0 if op[1] == "oldest" else -1)
                    r = weakref.ref(obj)
                    del obj
                    if r() is None:
                        died = True
            elif k == "sweep":
                SymbolGraph().remove_dead_instances()
            elif k == "query":
                if not observe(_H.TYPES[op[1]], where):
                    break
            elif k == "clear":
                SymbolGraph().clear()
                SymbolGraph()
                epoch += 1
        except Exception as e:
            res.failures.append(Failure("crash", f"{where}{note}: {type(e).__name__}: {e}"))
            break
        states.append((tuple(sorted(n for n, r, e in census if r() is not None and e == epoch)), k))
    if not res.failures:
        gc.collect()
        for tn, T in _H.TYPES.items():
            if not observe(T, f"final census after {hist}"):
                break
    res.states = states
    res.outcome_key = states[-1] if states else ()
    if died and reborn:
        res.nontrivial_key = case
    res.features = {op[0] for op in hist} | ({"index-reuse-possible"} if died and reborn else set())
    if not res.failures and died and reborn and len(seq) >= 4:
        res.sample = {"start": [list(o) for o in start], "ops": [list(o) for o in seq]}
    live.clear()
    # what krrood still holds from this case is immortal in this process (class-level registries); freezing it keeps the
    # next case's gc.collect() from re-scanning it. Reference counting is unaffected by freezing.
    gc.freeze()
    return res


def finish(run):
    if run.exhaustive and not run.failures:
        for k in ("index-reuse-possible", "clear", "sweep", "query", "drop", "identity-recycled"):
            if not run.features.get(k):
                raise HarnessError(f"vacuous: {k} never exercised")


def classify(case, failure):
    # C13-F2: the second and later evaluations of ONE domain-less variable keep the domain of the first one
    if failure.kind == "declared-query-differs" and getattr(failure, "sig_hint", None) == "re-evaluated":
        return "C13/re-evaluated-variable-keeps-first-domain"
    return None


def cluster_key(case, f):
    return (f.kind, f.detail.split(":")[1][:40] if f.kind != "crash" else f.detail[-80:],)


def repro(case):
    return f"""# C13 replay
import sys; sys.path.insert(0, '/verif')
from checks import c13
c13.init_worker()
for f in c13.run_case({case!r}).failures: print(f.kind, f.detail)
"""


def _m_sweep_keeps_class_list():
    from krrood.entity_query_language import symbol_graph as G
    def remove_node(self, wrapped_instance):
        self._instance_index.pop(id(wrapped_instance.instance), None)
        self._instance_graph.remove_node(wrapped_instance.index)
    G.SymbolGraph.remove_node = remove_node


def _m_iterate_live_list():
    from krrood.entity_query_language import symbol_graph as G
    from krrood.utils import recursive_subclasses
    def get_instances_of_type(self, type_):
        for cls in dict.fromkeys([type_] + recursive_subclasses(type_)):
            for instance in self._class_to_wrapped_instances[cls]:
                self.remove_dead_instances()
                yield instance.instance
    G.SymbolGraph.get_instances_of_type = get_instances_of_type


def _m_bisect_remove():
    from krrood.entity_query_language import symbol_graph as G
    from bisect import bisect_left
    def remove_node(self, wrapped_instance):
        self._instance_index.pop(id(wrapped_instance.instance), None)
        instances = self._class_to_wrapped_instances[wrapped_instance.instance_type]
        position = bisect_left(instances, wrapped_instance.index, key=lambda node: node.index)
        del instances[position]
        self._instance_graph.remove_node(wrapped_instance.index)
    G.SymbolGraph.remove_node = remove_node


def _m_subclass_not_listed():
    from krrood.entity_query_language import symbol_graph as G
    orig = G.SymbolGraph.add_node
    def add_node(self, wrapped_instance):
        orig(self, wrapped_instance)
        if len(wrapped_instance.instance_type.__mro__) > 6:
            self._class_to_wrapped_instances[wrapped_instance.instance_type].remove(wrapped_instance)
    G.SymbolGraph.add_node = add_node


MUTANTS = {"sweep_keeps_class_list": _m_sweep_keeps_class_list,
           "bisect_remove": _m_bisect_remove, "subclass_not_listed": _m_subclass_not_listed}


def apply_mutant(name):
    MUTANTS[name]()
