"""
Front end shared by the EQL checks: builds REAL krrood queries from harness ASTs (see oracles/fol.py for the
grammar) through the public API only, exactly as a user would write them; fresh krrood objects per call.
"""
from __future__ import annotations

import operator

from models import eqlworld as W
from oracles import fol


def std_world(domains):
    """domains: dict var name -> list of objects.  Adds the metadata the reference evaluator needs."""
    w = dict(domains)
    w["__types__"] = {"Item": W.Item, "SubItem": W.SubItem}
    w["__preds__"] = {"SameA": lambda p, q: p.a == q.a, "AIs": lambda p, k: p.a == k}
    w["__funcs__"] = {"b_is": lambda item, k: item.b == k}
    return w


class Built:
    """A real query plus what is needed to read its results."""

    def __init__(self, query, sel_objs, kind, vars_):
        self.query = query
        self.sel_objs = sel_objs
        self.kind = kind
        self.vars = vars_

    def row(self, result):
        if self.kind == "entity":
            return (result,)
        return tuple(result[o] for o in self.sel_objs)

    def rows(self):
        return [self.row(r) for r in self.query.evaluate()]


def build(q, world, quantifier="an", quantification=None, domain_wrap=None, shared_vars=None, share_terms=False):
    """
    q: query AST.  world: var name -> domain list.
    domain_wrap: optional callable(name, list) -> iterable handed to let() (e.g. a logging generator).
    shared_vars: optional dict name -> already built krrood variable (C03 shares nodes on purpose).
    share_terms: attribute / index / call terms that occur several times in the query are built ONCE and the same krrood
                 expression object is used at every occurrence (what `f = x.flag` followed by two uses of f does).
    """
    from krrood.entity_query_language.entity import (entity, set_of, let, and_, or_, not_, in_, contains, flatten,
                                                       exists, for_all)
    from krrood.entity_query_language.quantify_entity import an, the
    from krrood.entity_query_language.predicate import HasType

    _, kind, sels, c, decls = q
    env = dict(shared_vars or {})

    def dom(name):
        d = world[name]
        return domain_wrap(name, d) if domain_wrap else list(d)

    def mk_var(name):
        if name not in env:
            env[name] = let(W.Item, dom(name), name=name)
        return env[name]

    term_objects = {}

    def T(t):
        if share_terms and t[0] in ("attr", "idx", "call"):
            if t not in term_objects:
                term_objects[t] = T_(t)
            return term_objects[t]
        return T_(t)

    def T_(t):
        k = t[0]
        if k == "var":
            return env[t[1]] if t[1] in env else mk_var(t[1])
        if k == "attr":
            return getattr(T(t[1]), t[2])
        if k == "idx":
            return T(t[1])[t[2]]
        if k == "call":
            return getattr(T(t[1]), t[2])(*t[3])
        if k == "callv":
            return getattr(T(t[1]), t[2])(*[T(a) for a in t[3]])
        if k == "idxv":
            return T(t[1])[T(t[2])]
        if k == "lit":
            return list(t[1]) if isinstance(t[1], tuple) else t[1]
        if k == "rawlit":
            return t[1]
        raise ValueError(t)

    cond_objects = {}

    def C(c):
        # with share_terms, identical comparisons / predicate calls are ONE condition object as well (c = x.a == 0;
        # or_(and_(c, p), and_(not_(c), q)))
        if share_terms and c[0] in ("cmp", "in", "contains", "pred", "func", "hastype", "bool"):
            if c not in cond_objects:
                cond_objects[c] = C_(c)
            return cond_objects[c]
        return C_(c)

    def C_(c):
        k = c[0]
        if k == "cmp":
            return getattr(operator, c[1])(T(c[2]), T(c[3]))
        if k == "in":
            return in_(T(c[1]), T(c[2]))
        if k == "contains":
            return contains(T(c[1]), T(c[2]))
        if k == "bool":
            return T(c[1])
        if k == "const":
            return c[1]
        if k == "hastype":
            return HasType(T(c[1]), world["__types__"][c[2]])
        if k == "pred":
            return getattr(W, c[1])(*[T(t) for t in c[2:]])
        if k == "func":
            return getattr(W, c[1])(**{kw: T(t) for kw, t in c[2]})
        if k == "and":
            return and_(C(c[1]), C(c[2]))
        if k == "or":
            return or_(C(c[1]), C(c[2]))
        if k == "not":
            return not_(C(c[1]))
        if k == "exists":
            return exists(mk_var(c[1]), C(c[2]))
        if k == "forall":
            return for_all(mk_var(c[1]), C(c[2]))
        raise ValueError(c)

    for d in decls:
        if d[0] == "dom":
            mk_var(d[1])
        elif d[0] == "flat":
            env[d[1]] = flatten(T(d[2]))
        elif d[0] == "sub":
            v = mk_var(d[3])
            inner = entity(v, C(d[4])) if d[4] is not None else entity(v)
            env[d[1]] = an(inner) if d[2] == "an" else the(inner)
    sel_objs = [T(s) for s in sels]
    conds = [C(c)] if c is not None else []
    if kind == "entity":
        desc = entity(sel_objs[0], *conds)
    else:
        desc = set_of(sel_objs, *conds)
    if quantifier == "an":
        query = an(desc, quantification=quantification) if quantification is not None else an(desc)
    else:
        query = the(desc)
    return Built(query, sel_objs, kind, env)
