"""
C18 - JSON serialisation round-trips polymorphic objects through real JSON text.

E1: all values of bounded nesting/width over a leaf alphabet, through to_json -> json.dumps -> json.loads -> from_json.
"""
from __future__ import annotations

import itertools
import json
import math
import uuid

from mc.core import CaseResult, Failure, HarnessError

PROPERTY = "C18"
LEVEL = "exploration"
RULE = ("all values built from a 30-leaf alphabet (None, bools, extreme ints/floats incl. nan/inf/-0.0, unicode/"
        "surrogate strings, UUIDs, a registry-registered foreign type, SubclassJSONSerializer classes of subclass "
        "depth 1-3 and two classes with the same simple name in different modules) with lists of length <=2 nested "
        "<=3, every object class wrapping every smaller value; each value goes through real JSON text and is compared "
        "type-exactly (NaN-aware, sign of zero) and every object dict is checked for its fully qualified tag. "
        "non-trivial = values containing an object or a nested list")
ASSUMPTIONS = ["tuples and sets are outside the statement (lists only)", "classes live at module top level"]
BOUNDS = {"quick": {"depth": 3, "width": 2, "reps_per_level": 60}, "thorough": {"depth": 3, "width": 2, "reps_per_level": 220}}
CHUNK = 2000
RECYCLE_CHUNKS = 50

U1 = "12345678-1234-5678-1234-567812345678"
U2 = "00000000-0000-0000-0000-000000000000"

# leaves are encoded as tagged tuples so that cases are picklable/printable; build() makes the value
LEAVES = ([("none",), ("bool", True), ("bool", False)]
          + [("int", v) for v in (0, 1, -1, 2 ** 53 + 1, 10 ** 30, -(2 ** 63))]
          + [("float", v) for v in ("0.5", "-0.0", "0.0", "1e308", "5e-324", "inf", "-inf", "nan", "1.0")]
          + [("str", v) for v in ("", "a", "ü", "\x00", "\U0001f600", "\ud800", "__json_type__", "1", "null")]
          + [("uuid", U1), ("uuid", U2), ("point1", 3), ("point2", "1.5", "-2.0")]
          # registered third-party types that are also JSON leaf types, a serialiser class that is also a list
          + [("level", 2), ("tagline", "null"), ("bag", 0), ("bag", 2)])

OBJ = ["Box", "SubBox", "SubSubBox", "Foreign", "ForeignSub"]
NESTED_CLASS = "Shelf.Slot"  # a class that is not a module attribute: only in a few dedicated cases (open finding C18-F1)


def build(c):
    from models import jsonmodels as M, jsonmodels2 as M2
    k = c[0]
    if k == "none":
        return None
    if k in ("bool", "int", "str"):
        return c[1]
    if k == "float":
        return float(c[1])
    if k == "uuid":
        return uuid.UUID(c[1])
    if k == "point1":
        return M.Point(c[1])
    if k == "point2":
        return M2.Point(float(c[1]), float(c[2]))
    if k == "level":
        return M.Level(c[1])
    if k == "tagline":
        return M.Tagline(c[1])
    if k == "bag":
        return M.Bag([1, "a", M.Level.LOW][:c[1] + 1] if c[1] else [])
    if k == "list":
        return [build(x) for x in c[1:]]
    if k == "obj":
        cls = M
        for part in c[1].split("."):
            cls = getattr(cls, part)
        if c[1] == "SubSubBox":
            return cls(payload=build(c[2]), extra=build(c[3]))
        return cls(build(c[2]))
    raise ValueError(c)


def lists_over(vals, width):
    yield ("list",)
    for w in range(1, width + 1):
        for combo in itertools.product(vals, repeat=w):
            yield ("list",) + combo


def reps(vals, n, seed_salt):
    """a deterministic, kind-diverse subset used as building blocks for the next level"""
    by_kind = {}
    for v in vals:
        by_kind.setdefault((v[0], v[1] if v[0] == "obj" else len(v)), []).append(v)
    out = []
    i = 0
    while len(out) < n:
        progressed = False
        for k in sorted(by_kind, key=repr):
            lst = by_kind[k]
            if i < len(lst):
                out.append(lst[i])
                progressed = True
                if len(out) >= n:
                    break
        if not progressed:
            break
        i += 1
    return out


def cases(tier, seed):
    b = BOUNDS[tier]
    n = b["reps_per_level"]
    level0 = list(LEAVES)
    all_cases = list(level0)
    prev_all = level0
    prev_reps = level0  # depth 1 uses ALL leaves
    for depth in range(1, b["depth"] + 1):
        new = []
        new.extend(lists_over(prev_reps, b["width"]))
        for v in prev_all:
            for o in OBJ:
                if o == "SubSubBox":
                    for e in (("int", 0), ("list", ("str", "a")), v):
                        new.append(("obj", o, v, e))
                else:
                    new.append(("obj", o, v))
        all_cases.extend(new)
        prev_all = new
        prev_reps = reps(new, n, depth) + reps(level0, 6, depth)
    for v in level0[:12]:
        all_cases.append(("obj", NESTED_CLASS, v))
    all_cases += [("list", ("obj", NESTED_CLASS, ("int", 1))), ("obj", "Box", ("obj", NESTED_CLASS, ("none",))),
                  ("obj", NESTED_CLASS, ("obj", "SubBox", ("str", "a"))), ("list", ("int", 0), ("list", ("obj", NESTED_CLASS, ("uuid", U1))))]
    # de-duplicate while keeping order
    seen = set()
    out = []
    for c in all_cases:
        if c not in seen:
            seen.add(c)
            out.append(c)
    return out


def same(a, b):
    """type-exact structural equality, NaN-aware, sign-of-zero aware"""
    from models import jsonmodels as M, jsonmodels2 as M2
    if type(a) is not type(b):
        return False
    if isinstance(a, float):
        if math.isnan(a) or math.isnan(b):
            return math.isnan(a) and math.isnan(b)
        return a == b and math.copysign(1, a) == math.copysign(1, b)
    if isinstance(a, list):
        return len(a) == len(b) and all(same(x, y) for x, y in zip(a, b))
    if isinstance(a, M.SubSubBox):
        return same(a.payload, b.payload) and same(a.extra, b.extra)
    if isinstance(a, M.Box):
        return same(a.payload, b.payload)
    if isinstance(a, M.ForeignSub):
        return same(a.v, b.v) and same(a.w, b.w)
    if isinstance(a, M.Foreign):
        return same(a.v, b.v)
    if isinstance(a, M.Point):
        return same(a.x, b.x)
    if isinstance(a, M2.Point):
        return same(a.lat, b.lat) and same(a.lon, b.lon)
    return a == b


def check_tags(value, js, problems):
    """every serialised object carries module + '.' + qualified class name"""
    from krrood.adapters.json_serializer import JSON_TYPE_NAME
    if type(value) is list:
        if not isinstance(js, list) or len(js) != len(value):
            problems.append(f"list serialised as {type(js).__name__}")
            return
        for v, j in zip(value, js):
            check_tags(v, j, problems)
    elif type(value) in (type(None), bool, int, float, str):
        if type(js) is not type(value):
            problems.append(f"leaf {value!r} serialised as {js!r}")
    else:
        if not isinstance(js, dict):
            problems.append(f"object {value!r} serialised as {js!r}")
            return
        cls = type(value)
        want = cls.__module__ + "." + cls.__qualname__
        if js.get(JSON_TYPE_NAME) != want:
            problems.append(f"tag of {cls.__name__} is {js.get(JSON_TYPE_NAME)!r}, expected {want!r}")
        if isinstance(value, list) and "items" in js:
            check_tags(list(value), js["items"], problems)
        for attr in ("payload", "extra", "v"):
            if hasattr(value, attr) and attr in js and not isinstance(value, (int, str)):
                check_tags(getattr(value, attr), js[attr], problems)


def depth_of(c):
    if c[0] in ("list", "obj"):
        return 1 + max([depth_of(x) for x in c[1:] if isinstance(x, tuple)] + [0])
    return 0


def run_case(case):
    from krrood.adapters.json_serializer import to_json, from_json
    res = CaseResult()
    value = build(case)
    try:
        js = to_json(value)
        text = json.dumps(js)
        back = from_json(json.loads(text))
    except Exception as e:
        res.failures.append(Failure("crash", f"{case!r}: {type(e).__name__}: {e}"))
        return res
    problems = []
    check_tags(value, js, problems)
    if problems:
        res.failures.append(Failure("tag", f"{case!r}: {problems[:3]}"))
    if not same(value, back):
        res.failures.append(Failure("roundtrip", f"{case!r}: {value!r} came back as {back!r} (text {text[:200]})"))
    if case[0] in ("list", "obj") and depth_of(case) >= 1 and (case[0] == "obj" or len(case) > 1):
        res.nontrivial_key = case
    res.outcome_key = text if len(text) < 80 else hash(text)
    res.features = ["top:" + case[0] + (":" + case[1] if case[0] == "obj" else ""), "depth:%d" % depth_of(case)]
    if depth_of(case) == 3 and case[0] == "obj":
        res.sample = {"case": repr(case), "json_text": text[:300]}
    return res


def finish(run):
    if run.exhaustive and not run.failures:
        for k in ("depth:3", "top:obj:SubSubBox", "top:obj:Foreign", "top:obj:ForeignSub", "top:obj:Shelf.Slot", "top:point2", "top:uuid"):
            if not run.features.get(k):
                raise HarnessError(f"vacuous: {k} never exercised")


def mentions_nested_class(c):
    return isinstance(c, tuple) and ((c[0] == "obj" and "." in c[1]) or any(mentions_nested_class(x) for x in c[1:]))


def classify(case, failure):
    # C18-F1: a serialisable class that is not a module attribute (class nested in a class)
    if mentions_nested_class(case) and (
            (failure.kind == "crash" and "ClassNotFoundError" in failure.detail and "'Slot'" in failure.detail)
            or (failure.kind == "tag" and "Shelf.Slot" in failure.detail)):
        return "C18/class-not-a-module-attribute"
    return None


def repro(case):
    return f"""# C18 replay
import sys; sys.path.insert(0, '/verif')
from checks import c18
for f in c18.run_case({case!r}).failures: print(f.kind, f.detail)
"""


def _m_list_to_tuple():
    from krrood.adapters import json_serializer as J
    orig = J.SubclassJSONSerializer.from_json.__func__
    def from_json(cls, data, **kwargs):
        if isinstance(data, list) and len(data) == 2 and all(isinstance(d, list) for d in data):
            return tuple(J.from_json(d) for d in data)
        return orig(cls, data, **kwargs)
    J.SubclassJSONSerializer.from_json = classmethod(from_json)


def _m_tag_from_base():
    from krrood.adapters import json_serializer as J
    from krrood.utils import get_full_class_name
    def to_json(self):
        cls = self.__class__
        if len(cls.__mro__) >= 5:
            cls = cls.__base__
        return {J.JSON_TYPE_NAME: get_full_class_name(cls)}
    J.SubclassJSONSerializer.to_json = to_json


def _m_cache_by_simple_name():
    from krrood.adapters import json_serializer as J
    import importlib
    cache = {}
    orig = J.SubclassJSONSerializer.from_json.__func__
    def from_json(cls, data, **kwargs):
        if isinstance(data, dict) and isinstance(data.get(J.JSON_TYPE_NAME), str) and "." in data[J.JSON_TYPE_NAME]:
            mod, name = data[J.JSON_TYPE_NAME].rsplit(".", 1)
            if name in cache:
                t = cache[name]
            else:
                t = getattr(importlib.import_module(mod), name)
                cache[name] = t
            if isinstance(t, type) and issubclass(t, J.SubclassJSONSerializer):
                return t._from_json(data, **kwargs)
        return orig(cls, data, **kwargs)
    J.SubclassJSONSerializer.from_json = classmethod(from_json)


def _m_bool_as_int():
    from krrood.adapters import json_serializer as J
    orig = J.to_json
    def to_json(obj):
        if obj is True:
            return 1
        return orig(obj)
    J.to_json = to_json
    import models.jsonmodels as M
    M.to_json = to_json


MUTANTS = {"list_to_tuple": _m_list_to_tuple, "tag_from_base": _m_tag_from_base,
           "cache_by_simple_name": _m_cache_by_simple_name, "bool_as_int": _m_bool_as_int}


def apply_mutant(name):
    MUTANTS[name]()
