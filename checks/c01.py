"""
C01 - EQL answers are exactly the satisfying assignments (soundness and completeness, as SETS of rows).

Exhaustive enumeration of query terms (E1) x a family of domain contents; the real engine is run on every
element and compared with the brute-force first-order evaluator of oracles/fol.py.
"""
from __future__ import annotations

import itertools

from mc.core import CaseResult, Failure, HarnessError
from models import eqlworld as W
from oracles import fol
from checks import eqlfront

PROPERTY = "C01"
LEVEL = "exploration"
RULE = ("all condition trees with <= n leaves over the simple-atom alphabet (every and_/or_ labelling, not_ above any "
        "node) x selections x domain family, plus every feature atom (one per vocabulary item of the statement) in "
        "every <=2-leaf context; each query built through the public API and evaluated by the real engine, row SET "
        "compared with a brute-force evaluator over the Cartesian product of the domains. non-trivial = distinct "
        "(query, domain) cases whose expected row set is neither empty nor the full product")
ASSUMPTIONS = ["CPython 3.12; objects compared by identity, scalars type-exact by value",
               "behaviour of a connective depends on its operands only through the (bindings, truth) streams they "
               "produce, so feature atoms are exercised in all <=2-leaf contexts rather than all n-leaf ones"]
BOUNDS = {"quick": {"leaves_simple": 3, "leaves_feature_context": 2, "vars": 2, "subdomain_universe": 3},
          "thorough": {"leaves_simple": 4, "max_negations_at_4": 2, "leaves_feature_context": 2, "vars": 2,
                       "subdomain_universe": 3}}
CHUNK = 300
RECYCLE_CHUNKS = 6
BUDGET_S = {"quick": 600, "thorough": 3000}

X, Y, Z = ("var", "x"), ("var", "y"), ("var", "z")


def A(v, f):
    return ("attr", v, f)


def L(v):
    return ("lit", v)


SIMPLE = [
    ("cmp", "eq", A(X, "a"), L(0)),
    ("cmp", "eq", A(X, "b"), L(1)),
    ("cmp", "eq", A(Y, "a"), L(0)),
    ("cmp", "eq", A(Y, "b"), L(1)),
    ("cmp", "eq", A(X, "a"), A(Y, "a")),
]
SIMPLE_THOROUGH = SIMPLE + [("cmp", "lt", A(X, "b"), A(Y, "b"))]

# one feature atom per vocabulary item the statement names
FEATURES = {
    "ne": ("cmp", "ne", A(X, "a"), L(0)),
    "lt": ("cmp", "lt", A(X, "a"), A(Y, "b")),
    "ge": ("cmp", "ge", A(X, "b"), L(1)),
    "lit_left": ("cmp", "eq", L(1), A(X, "a")),
    "obj_eq": ("cmp", "eq", X, Y),
    "obj_ne": ("cmp", "ne", X, Y),
    "bool_attr": ("bool", A(X, "flag")),
    "const_true": ("const", True),
    "const_false": ("const", False),
    "in_lit": ("in", A(X, "a"), L((1, 2))),
    "in_attr": ("in", A(Y, "a"), A(X, "tags")),
    "contains_attr": ("contains", A(X, "tags"), L(1)),
    "in_empty": ("in", A(X, "a"), L(())),
    "chain": ("cmp", "eq", A(A(X, "nxt"), "a"), L(1)),
    "chain2": ("cmp", "eq", A(A(X, "nxt"), "b"), A(Y, "b")),
    "index": ("cmp", "eq", ("idx", A(X, "vals"), 0), L(2)),
    "index_last": ("cmp", "eq", ("idx", A(X, "vals"), -1), A(Y, "a")),
    "call": ("cmp", "eq", ("call", X, "m", (1,)), L(1)),
    "call_attr": ("cmp", "eq", ("call", X, "m", (1,)), A(Y, "b")),
    # an index whose key is an expression; the variable itself as a condition; two collections compared
    "index_var_key": ("cmp", "eq", ("idxv", A(X, "vals"), A(Y, "b")), L(7)),
    "index_own_key": ("cmp", "ge", ("idxv", A(X, "vals"), A(X, "b")), L(3)),
    "var_as_condition": ("bool", X),
    "list_eq_same_order": ("cmp", "eq", A(X, "tags"), L((1, 2))),
    "list_eq_other_order": ("cmp", "eq", A(X, "tags"), L((2, 1))),
    "list_ne_repeated": ("cmp", "ne", A(X, "tags"), L((1, 1, 2))),
    # two items indexed out of / two calls on ONE container or callable compared with each other
    "index_pair_eq": ("cmp", "eq", ("idx", A(X, "vals"), 0), ("idx", A(X, "vals"), 1)),
    "index_pair_ne": ("cmp", "ne", ("idx", A(X, "vals"), 0), ("idx", A(X, "vals"), -1)),
    "index_pair_two_vars": ("cmp", "eq", ("idx", A(X, "vals"), 0), ("idx", A(Y, "vals"), 1)),
    # order comparisons over PARTIALLY ordered values (sets by inclusion, NaN): not (a < b) is not (a >= b)
    "set_lt": ("cmp", "lt", ("call", X, "ts", ()), ("call", Y, "ts", ())),
    "set_le": ("cmp", "le", ("call", X, "ts", ()), ("call", Y, "ts", ())),
    "set_gt_own_next": ("cmp", "gt", ("call", A(X, "nxt"), "ts", ()), ("call", X, "ts", ())),
    "set_ge": ("cmp", "ge", ("call", X, "ts", ()), ("call", Y, "ts", ())),
    "nan_lt_lit": ("cmp", "lt", ("call", X, "fv", ()), L(1.0)),
    "nan_ge": ("cmp", "ge", ("call", X, "fv", ()), ("call", Y, "fv", ())),
    "call_pair_eq": ("cmp", "eq", ("call", X, "m", (1,)), ("call", X, "m", (2,))),
    "call_pair_ne": ("cmp", "ne", ("call", X, "m", (0,)), ("call", X, "m", (1,))),
    # calls whose arguments are expressions over the same and over another variable
    "call_var_arg": ("cmp", "eq", ("callv", X, "m", (A(Y, "b"),)), L(1)),
    "call_own_arg": ("cmp", "ge", ("callv", X, "m", (A(X, "b"),)), L(2)),
    "call_var_arg_cmp_var": ("cmp", "eq", ("callv", X, "m", (A(Y, "a"),)), A(Y, "b")),
    "hastype": ("hastype", X, "SubItem"),
    "pred": ("pred", "SameA", X, Y),
    "pred_lit": ("pred", "AIs", X, L(1)),
    "func": ("func", "b_is", (("item", X), ("k", L(1)))),
    "func2": ("func", "b_is", (("item", Y), ("k", A(X, "a")))),
    "exists": ("exists", "z", ("and", ("cmp", "eq", A(Z, "a"), A(X, "a")), ("cmp", "ne", A(Z, "b"), A(X, "b")))),
    "exists_simple": ("exists", "z", ("cmp", "lt", A(Z, "b"), A(X, "b"))),
    "forall": ("forall", "z", ("cmp", "ge", A(Z, "a"), A(X, "a"))),
    "forall_or": ("forall", "z", ("or", ("cmp", "ne", A(Z, "a"), A(X, "a")), ("cmp", "eq", A(Z, "b"), A(X, "b")))),
    # a union-form or_ (operands over different variable sets) inside a quantifier, also under not_
    "exists_union": ("exists", "z", ("or", ("cmp", "eq", A(X, "b"), L(1)), ("cmp", "eq", A(Z, "a"), L(1)))),
    "forall_union": ("forall", "z", ("or", ("cmp", "eq", A(X, "a"), L(0)), ("cmp", "eq", A(Z, "b"), L(1)))),
    "exists_union_right_never": ("exists", "z", ("or", ("cmp", "eq", A(X, "b"), L(1)), ("cmp", "eq", A(Z, "a"), L(5)))),
    "exists_union_left_never": ("exists", "z", ("or", ("cmp", "eq", A(Z, "a"), L(5)), ("cmp", "eq", A(X, "b"), L(1)))),
    "forall_union_right_always": ("forall", "z", ("or", ("cmp", "eq", A(X, "a"), L(0)), ("cmp", "ge", A(Z, "b"), L(0)))),
    "forall_union_right_never": ("forall", "z", ("or", ("cmp", "eq", A(X, "a"), L(0)), ("cmp", "eq", A(Z, "b"), L(7)))),
    "exists_and_union": ("exists", "z", ("and", ("cmp", "eq", A(Z, "a"), A(X, "a")),
                                        ("or", ("cmp", "eq", A(X, "b"), L(0)), ("cmp", "eq", A(Z, "b"), L(1))))),
    # predicates and symbolic functions over the quantified variable
    "forall_pred": ("forall", "z", ("pred", "SameA", X, Z)),
    "forall_pred_or": ("forall", "z", ("or", ("pred", "SameA", Z, X), ("cmp", "eq", A(Z, "b"), L(1)))),
    "forall_func": ("forall", "z", ("func", "b_is", (("item", Z), ("k", A(X, "b"))))),
    "exists_pred": ("exists", "z", ("and", ("pred", "SameA", X, Z), ("cmp", "ne", A(Z, "b"), A(X, "b")))),
    # two quantifiers as the operands of one connective (same and different quantified variables)
    "or_forall_exists": ("or", ("forall", "z", ("cmp", "ge", A(Z, "a"), A(X, "a"))),
                         ("exists", "w", ("cmp", "lt", ("attr", ("var", "w"), "b"), A(X, "b")))),
    "or_forall_exists_same_var": ("or", ("forall", "z", ("cmp", "ge", A(Z, "a"), A(X, "a"))),
                                  ("exists", "z", ("cmp", "lt", A(Z, "b"), A(X, "b")))),
    "and_exists_forall": ("and", ("exists", "w", ("cmp", "lt", ("attr", ("var", "w"), "b"), A(X, "b"))),
                          ("forall", "z", ("cmp", "le", A(Z, "a"), A(X, "a")))),
    "and_exists_exists_same_var": ("and", ("exists", "z", ("cmp", "gt", A(Z, "a"), A(X, "a"))),
                                   ("exists", "z", ("cmp", "lt", A(Z, "b"), A(X, "b")))),
    "and_forall_exists_same_var": ("and", ("forall", "z", ("cmp", "le", A(Z, "a"), A(X, "a"))),
                                   ("exists", "z", ("cmp", "lt", A(Z, "b"), A(X, "b")))),
    "or_exists_exists": ("or", ("exists", "z", ("cmp", "gt", A(Z, "a"), A(X, "a"))),
                         ("exists", "w", ("cmp", "lt", ("attr", ("var", "w"), "b"), A(X, "b")))),
    "forall_exists": ("forall", "z", ("exists", "w", ("and", ("cmp", "eq", ("attr", ("var", "w"), "a"), A(Z, "a")),
                                                   ("cmp", "eq", ("attr", ("var", "w"), "b"), A(X, "b"))))),
}

SELECTIONS = [("entity", (X,)), ("setof", (X, Y)), ("entity", (Y,)), ("entity", (A(X, "a"),)),
              ("setof", (X, A(X, "a"))), ("setof", (Y, X)), ("setof", (A(X, "b"), A(Y, "b"))),
              # several selected expressions over ONE variable that no selected variable binds first
              ("setof", (A(X, "a"), A(X, "b"))), ("setof", (A(X, "a"), X)), ("setof", (Y, A(X, "a"), A(X, "b")))]


def negations(c):
    yield c
    yield ("not", c)


def conds(n, atoms, memo):
    """all condition trees with exactly n leaves; not_ allowed above every node (no double negation)"""
    if n in memo:
        return memo[n]
    out = []
    if n == 1:
        for a in atoms:
            out.extend(negations(a))
    else:
        for k in range(1, n):
            for l in conds(k, atoms, memo):
                for r in conds(n - k, atoms, memo):
                    for op in ("and", "or"):
                        out.extend(negations((op, l, r)))
    memo[n] = out
    return out


def count_not(c):
    return sum(1 for s in fol.subconds(c) if s[0] == "not")


def decls_for(sels, c, extra=()):
    used = set()
    for s in sels:
        used |= fol.term_vars(s)
    if c is not None:
        used |= fol.cond_vars(c)
    for e in extra:
        if e[0] == "flat":
            used |= fol.term_vars(e[2])
    return tuple(("dom", v) for v in ("x", "y") if v in used) + tuple(extra)


def mkq(kind, sels, c, extra=()):
    return ("query", kind, tuple(sels), c, decls_for(sels, c, extra))


def contexts(f):
    """every <=2-leaf context for a feature atom f"""
    yield f
    yield ("not", f)
    for s in SIMPLE:
        for op in ("and", "or"):
            for l, r in ((f, s), (s, f)):
                yield (op, l, r)
                yield ("not", (op, l, r))
                yield (op, ("not", l), r) if l is f else (op, l, ("not", r))


def cases(tier, seed):
    out = []
    memo = {}
    atoms = SIMPLE
    nmax = BOUNDS[tier]["leaves_simple"]
    # part A: full connective structure over the simple atoms, on D5
    for n in range(1, nmax + 1):
        for c in conds(n, atoms, memo):
            if n >= 4 and count_not(c) > BOUNDS[tier].get("max_negations_at_4", 99):
                continue
            for kind, sels in SELECTIONS[:2]:
                out.append((mkq(kind, sels, c), ("D5",)))
    # part B: <=2 leaves x all selections x all pairs of sub-domains of a 3-object universe
    small = conds(1, atoms, memo) + conds(2, atoms, memo)
    masks = list(range(8))
    for c in [None] + small:
        for kind, sels in SELECTIONS:
            q = mkq(kind, sels, c)
            nv = len(q[4])
            for mx in masks:
                if nv == 1:
                    out.append((q, ("sub3", mx, mx)))
                else:
                    for my in masks:
                        out.append((q, ("sub3", mx, my)))
    # same, on D5 with one shared list object and with reversed order
    for c in [None] + small:
        for kind, sels in SELECTIONS:
            q = mkq(kind, sels, c)
            out.append((q, ("D5shared",)))
            out.append((q, ("D5rev",)))
            out.append((q, ("D5falsy",)))
    # part C: feature atoms in every small context
    for name, f in FEATURES.items():
        for c in contexts(f):
            for kind, sels in SELECTIONS[:3]:
                q = mkq(kind, sels, c)
                out.append((q, ("D5",)))
                out.append((q, ("D5falsy",)))
                out.append((q, ("sub3", 5, 6)))
                out.append((q, ("sub3", 0, 7)))
                out.append((q, ("sub3", 7, 0)))
                if "exists" in repr(c) or "forall" in repr(c):
                    out.append((q, ("D5zempty",)))  # the quantified variable has an EMPTY domain
    # part D: dependent variables: flatten and nested sub-queries (conjunctive positions only)
    F = ("var", "f")
    S = ("var", "s")
    flat = ("flat", "f", A(X, "tags"))
    for c in [None, ("cmp", "eq", F, L(1)), ("cmp", "eq", F, A(X, "a")), ("cmp", "eq", F, A(Y, "a")),
              ("and", ("cmp", "eq", A(X, "b"), L(1)), ("cmp", "ge", F, L(1))),
              ("and", ("cmp", "ge", F, L(1)), ("cmp", "eq", A(X, "b"), L(1))),
              ("in", F, L((1, 2)))]:
        for kind, sels in [("entity", (X,)), ("setof", (X, F)), ("entity", (F,)), ("setof", (X, Y, F))]:
            if c is None and F not in sels:
                continue
            for dspec in (("D5",), ("D5falsy",), ("sub3", 5, 6), ("sub3", 3, 3), ("sub3", 0, 7)):
                out.append((mkq(kind, sels, c, extra=(flat,)), dspec))
    for qn in ("an", "the"):
        for inner in (("cmp", "eq", A(Y, "b"), L(1)), ("and", ("cmp", "eq", A(Y, "b"), L(1)), ("cmp", "eq", A(Y, "a"), L(1))),
                      ("cmp", "eq", A(Y, "a"), L(5)), None):
            sub = ("sub", "s", qn, "y", inner)
            for c in [("cmp", "eq", A(X, "a"), A(S, "a")), ("cmp", "ne", A(X, "b"), A(S, "b")),
                      ("and", ("cmp", "eq", A(X, "b"), L(0)), ("cmp", "eq", A(X, "a"), A(S, "a"))),
                      ("cmp", "eq", X, S)]:
                for kind, sels in [("entity", (X,)), ("setof", (X, A(X, "b")))]:
                    q = ("query", kind, sels, c, (("dom", "x"), sub))
                    for dspec in (("D5",), ("D5falsy",), ("sub3", 7, 7), ("sub3", 5, 6)):
                        out.append((q, dspec))
    # part E: the same expression object at several positions of one query (f = x.flag; ... f ... f ...)
    FL, YF = A(X, "flag"), A(Y, "flag")
    XA = A(X, "a")
    shared = [("and", ("bool", FL), ("cmp", "eq", YF, FL)), ("and", ("cmp", "eq", YF, FL), ("bool", FL)),
              ("and", ("bool", FL), ("cmp", "eq", A(Y, "a"), L(1))), ("or", ("bool", FL), ("cmp", "eq", YF, FL)),
              ("and", ("not", ("bool", FL)), ("cmp", "ne", YF, FL)), ("and", ("bool", FL), ("bool", FL)),
              ("and", ("cmp", "eq", XA, L(0)), ("cmp", "lt", XA, A(Y, "b"))), ("or", ("cmp", "eq", XA, L(1)), ("cmp", "eq", A(Y, "a"), XA)),
              ("and", ("cmp", "eq", XA, A(Y, "a")), ("not", ("cmp", "eq", XA, L(0)))),
              ("and", ("in", XA, L((1, 2))), ("cmp", "eq", XA, A(Y, "b"))),
              ("and", ("bool", FL), ("exists", "z", ("cmp", "ne", A(Z, "flag"), FL))),
              ("and", ("cmp", "eq", XA, L(1)), ("forall", "z", ("cmp", "le", A(Z, "a"), XA))),
              # ONE expression over the quantified variable used in two quantifiers
              ("and", ("exists", "z", ("cmp", "eq", A(Z, "b"), L(1))), ("forall", "z", ("cmp", "ge", A(Z, "b"), A(X, "b")))),
              ("and", ("forall", "z", ("cmp", "le", A(Z, "b"), L(1))), ("exists", "z", ("cmp", "gt", A(Z, "b"), A(X, "b"))))]
    # one CONDITION object at several positions (the if/else idiom and friends)
    cA, cB, cP, cQ = ("cmp", "eq", XA, L(0)), ("cmp", "lt", A(X, "b"), A(Y, "b")), ("cmp", "eq", A(Y, "b"), L(1)), ("cmp", "eq", A(Y, "a"), L(1))
    for cc in (cA, cB, ("pred", "SameA", X, Y)):
        shared += [("or", ("and", cc, cP), ("and", ("not", cc), cQ)), ("and", ("or", cc, cP), ("not", cc)),
                   ("and", cc, ("and", cP, cc)), ("or", ("and", cP, cc), ("and", cQ, ("not", cc))),
                   ("and", ("or", cP, cc), ("or", cQ, cc))]
    for c in shared:
        for c2 in (c, ("not", c)):
            for kind, sels in [("entity", (X,)), ("setof", (X, Y)), ("setof", (Y, X)), ("setof", (X, FL)), ("setof", (XA, Y))]:
                for dspec in (("D5",), ("D5rev",), ("D5falsy",), ("sub3", 7, 7), ("sub3", 5, 6)):
                    out.append((mkq(kind, sels, c2), dspec, "shared-terms"))
    return out


def make_world(dspec):
    if dspec[0] in ("D5", "D5shared", "D5rev", "D5falsy", "D5zempty"):
        items = W.make_items(W.UNIVERSE, falsy=dspec[0] == "D5falsy")
        if dspec[0] == "D5shared":
            shared = list(items)
            doms = {"x": shared, "y": shared, "z": shared, "w": shared}
        elif dspec[0] == "D5rev":
            doms = {"x": list(reversed(items)), "y": list(items), "z": list(items), "w": list(items)}
        elif dspec[0] == "D5zempty":
            doms = {"x": list(items), "y": items[1:] + items[:1], "z": [], "w": []}
        else:
            doms = {"x": list(items), "y": items[1:] + items[:1], "z": list(items), "w": items[2:] + items[:2]}
    else:
        u = W.make_items([W.UNIVERSE[0], W.UNIVERSE[3], W.UNIVERSE[4]])
        _, mx, my = dspec
        doms = {"x": [o for i, o in enumerate(u) if mx >> i & 1],
                "y": [o for i, o in enumerate(u) if my >> i & 1],
                "z": [o for i, o in enumerate(u) if (mx | my) >> i & 1],
                "w": [o for i, o in enumerate(u) if (mx | my) >> i & 1]}
    return eqlfront.std_world(doms)


def names(rowkeys, world):
    idn = {}
    for k, v in world.items():
        if not k.startswith("__"):
            for o in v:
                idn[id(o)] = o.name
    return sorted(tuple(idn.get(k[1], k[1:]) if k[0] == "o" else k[2] for k in r) for r in rowkeys)


def run_case(case):
    q, dspec = case[:2]
    share_terms = len(case) > 2
    world = make_world(dspec)
    res = CaseResult()
    try:
        exp_rows = fol.rows(q, world)
    except fol.Undefined:
        res.features = ["reference-undefined"]
        return res
    except (IndexError, AttributeError, TypeError) as e:
        # user data would fail by itself: outside the alphabet
        res.features = ["reference-raises"]
        return res
    exp = set(map(fol.row_key, exp_rows))
    feats = set()
    try:
        built = eqlfront.build(q, world, share_terms=share_terms)
        got_rows = built.rows()
        got = set(map(fol.row_key, got_rows))
    except Exception as e:
        res.failures.append(Failure("crash", f"{fol.show_query(q)} on {dspec}: {type(e).__name__}: {e}; "
                                             f"expected {names(exp, world)}"))
        res.outcome_key = ("crash", type(e).__name__)
        return res
    res.outcome_key = tuple(sorted(got))
    note = " [equal terms are ONE expression object]" if share_terms else ""
    n_total = 1
    for d in q[4]:
        if d[0] == "dom":
            n_total *= len(world[d[1]])
    if exp and len(exp_rows) < n_total or (exp and any(d[0] != "dom" for d in q[4])):
        res.nontrivial_key = case
    for s in (fol.subconds(q[3]) if q[3] else ()):
        feats.add("node:" + s[0])
    feats.add("sel:" + q[1] + str(len(q[2])))
    feats.add("dom:" + dspec[0])
    if share_terms:
        feats.add("shared-terms")
    feats.add("expected:" + ("empty" if not exp else "some"))
    res.features = feats
    if got - exp:
        res.failures.append(Failure("unsound-row", f"{fol.show_query(q)}{note} on {dspec}: returned rows "
                                                   f"{names(got - exp, world)} that violate the conditions; "
                                                   f"expected {names(exp, world)}"))
    if exp - got:
        res.failures.append(Failure("missing-row", f"{fol.show_query(q)}{note} on {dspec}: rows {names(exp - got, world)} "
                                                   f"satisfy the conditions but are missing; got {names(got, world)}"))
    if len(res.failures) == 0 and res.sample is None and res.nontrivial_key is not None:
        res.sample = {"query": fol.show_query(q), "domains": list(dspec), "rows": names(exp, world)[:6]}
    return res


def classify(case, failure):
    from checks import c01_findings
    return c01_findings.classify(case, failure)


def finish(run):
    if run.exhaustive and not run.failures:
        for k in ("node:and", "node:or", "node:not", "node:exists", "node:forall", "expected:empty", "expected:some"):
            if not run.features.get(k):
                raise HarnessError(f"vacuous: {k} never exercised")
    if len(run.outcomes) < 20:
        raise HarnessError("vacuous: fewer than 20 distinct result sets observed")


def repro(case):
    q, dspec = case[:2]
    return f"""# C01 replay: {fol.show_query(q)} on domains {dspec}
import sys; sys.path.insert(0, '/verif')
from checks import c01
r = c01.run_case({case!r})
for f in r.failures: print(f.kind, f.detail)
"""


# ---- in-process mutants (harness self-test; never touch /repo) ---------------------------------
def _m_and_ignores_false_left():
    from krrood.entity_query_language import symbolic as S
    def _evaluate__(self, sources=None, parent=None):
        sources = sources or {}
        self._eval_parent_ = parent
        for left_value in self.left._evaluate__(sources, parent=self):
            yield from self.evaluate_right(left_value)
    S.AND._evaluate__ = _evaluate__


def _m_negated_union_flips():
    from krrood.entity_query_language import symbolic as S
    S.OR._invert_ = lambda self: S.Not(self)
    S.AND._invert_ = lambda self: S.Not(self)


def _m_forall_first_only():
    from krrood.entity_query_language import symbolic as S
    calls = [0]
    def evaluate_condition(self, sources):
        # only the first two values of the universal variable are really checked
        calls[0] += 1
        for condition_val in self.condition._evaluate__(sources, parent=self):
            return condition_val.is_true or calls[0] % 3 == 0
        return False
    S.ForAll.evaluate_condition = evaluate_condition


def _m_selected_product():
    from krrood.entity_query_language import symbolic as S
    from krrood.entity_query_language.utils import generate_combinations
    from copy import copy
    def evaluate_selected_variables(self, sources, index=0):
        gens = {v: v._evaluate__(copy(sources), parent=self) for v in self.selected_variables}
        for sol in generate_combinations(gens):
            vv = {v._id_: sol[v][v._id_] for v in self.selected_variables}
            yield S.OperationResult({**sources, **vv}, self._is_false_, self)
    S.QueryObjectDescriptor.evaluate_selected_variables = evaluate_selected_variables


def _m_contains_swapped():
    from krrood.entity_query_language import entity as E, symbolic as S
    import operator
    def in_(item, container):
        return S.Comparator(item, container, operator.contains) if isinstance(container, (list, tuple)) and len(container) == 0 else S.Comparator(container, item, operator.contains)
    E.in_ = in_


def _m_role_from_node_parent():
    # the role (condition or value) of an attribute expression is read from the node's current parent at the moment a
    # value is produced (the behaviour before C01-F11 was repaired)
    from krrood.entity_query_language import symbolic as S

    def _evaluate__(self, sources=None, parent=None):
        sources = sources or {}
        self._eval_parent_ = parent
        role = lambda: isinstance(self._parent_, S.LogicalOperator) or self is self._conditions_root_
        if self._id_ in sources:
            yield self._build_operation_result_and_update_truth_value_(S.OperationResult(sources, False, self),
                                                                       sources[self._id_], role())
            return
        for child_result in self._child_._evaluate__(sources, parent=self):
            for mapped_value in self._apply_mapping_(child_result[self._child_._id_]):
                yield self._build_operation_result_and_update_truth_value_(child_result, mapped_value, role())
    S.DomainMapping._evaluate__ = _evaluate__


def _m_forall_keeps_dependent_values():
    from krrood.entity_query_language import symbolic as S
    def ids(self):
        return [v.id_ for v in self.condition._unique_variables_.difference(self.left._unique_variables_)]
    S.ForAll.condition_unique_variable_ids = property(ids)


def _m_exists_sees_outer_binding():
    from krrood.entity_query_language import symbolic as S
    def _evaluate__(self, sources=None, parent=None):
        sources = sources or {}
        self._eval_parent_ = parent
        seen = []
        for val in self.condition._evaluate__(sources, parent=self):
            if val.is_false:
                continue
            var_val = val.bindings.get(self.variable._id_)
            if var_val is not None:
                if var_val.value in seen:
                    continue
                seen.append(var_val.value)
            yield S.OperationResult(val.bindings, False, self)
    S.Exists._evaluate__ = _evaluate__


def _m_forall_sees_outer_binding():
    from krrood.entity_query_language import symbolic as S

    def _evaluate__(self, sources=None, parent=None):
        sources = sources or {}
        self._eval_parent_ = parent
        solution_set = None
        for var_val in self.variable._evaluate__(sources, parent=self):
            if solution_set is None:
                solution_set = self.get_all_candidate_solutions(var_val.bindings)
            else:
                solution_set = [sol for sol in solution_set if self.evaluate_condition({**sol, **var_val.bindings})]
            if not solution_set:
                solution_set = []
                break
        yield from [S.OperationResult({**sources, **sol}, False, self) for sol in solution_set]
    S.ForAll._evaluate__ = _evaluate__


def _m_elseif_after_quantifier():
    from krrood.entity_query_language import symbolic as S
    from krrood.entity_query_language import entity as E

    def optimize_or(left, right):
        if not isinstance(left, S.SymbolicExpression):
            left = S.Literal(left)
        if not isinstance(right, S.SymbolicExpression):
            right = S.Literal(right)
        q = lambda v: not isinstance(v.value, S.Literal) and not getattr(v.value, "_predicate_type_", None)
        lv = left._unique_variables_.filter(q)
        rv = right._unique_variables_.filter(q)
        return S.ElseIf(left, right) if set(lv.unwrapped_values) == set(rv.unwrapped_values) else S.Union(left, right)
    S.optimize_or = optimize_or
    for mod in (E, S):
        if hasattr(mod, "optimize_or"):
            mod.optimize_or = optimize_or


MUTANTS = {"elseif_after_quantifier": _m_elseif_after_quantifier, "role_from_node_parent": _m_role_from_node_parent, "forall_sees_outer_binding": _m_forall_sees_outer_binding, "forall_keeps_dependent_values": _m_forall_keeps_dependent_values,
           "exists_sees_outer_binding": _m_exists_sees_outer_binding, "and_ignores_false_left": _m_and_ignores_false_left, "negated_union_flips": _m_negated_union_flips,
           "forall_first_only": _m_forall_first_only, "selected_product": _m_selected_product}


def apply_mutant(name):
    MUTANTS[name]()
