"""Structural signatures of recorded C03 findings."""


def steps_overlap(case):
    """
    True when a step (next/drain) of one iterator happens while an evaluation of another iterator is in progress, i.e.
    has taken its first step and has neither been exhausted nor abandoned. evaluate() is lazy: merely creating an
    iterator does not start the evaluation.
    """
    name, kind, progs, sched = case
    pos = [0] * len(progs)
    running = [False] * len(progs)
    for t in sched:
        a = progs[t][pos[t]][0]
        pos[t] += 1
        if a == "start":
            running[t] = False
        elif a in ("next", "drain"):
            if any(running[u] for u in range(len(progs)) if u != t):
                return True
            last_of_evaluation = pos[t] == len(progs[t]) or progs[t][pos[t]][0] == "start"
            # a trailing next is the one that raises StopIteration; drain always finishes the evaluation
            running[t] = not (a == "drain" or (last_of_evaluation and a == "next"))
        elif a in ("close", "drop"):
            running[t] = False
    return False


def classify(case, failure):
    if len(case) < 4:
        return None
    name = case[0]
    if name in ("S8_rule_query_twice", "S16_rule_with_alternative_and_next_twice") and failure.kind in ("incomplete-evaluation", "wrong-prefix", "wrong-results", "wrong-side-effects") \
            and steps_overlap(case):
        return "C03/overlapping-evaluations-of-one-rule-query"
    return None
