"""Structural signatures of recorded C03 findings."""


def overlapping_same_thread_target(case):
    """True when an evaluation starts while another evaluation (of another iterator) is still in progress"""
    name, kind, progs, sched = case
    pos = [0] * len(progs)
    active = [False] * len(progs)
    for t in sched:
        a = progs[t][pos[t]][0]
        pos[t] += 1
        if a == "start":
            if any(active[u] for u in range(len(progs)) if u != t):
                return True
            active[t] = True
        elif a in ("drain", "close", "drop"):
            active[t] = False
        elif a == "next":
            # an evaluation whose next() already raised StopIteration is over; approximate by program end
            if pos[t] == len(progs[t]) or progs[t][pos[t]][0] == "start":
                active[t] = False
            # another iterator stepping while this one is active
        if a in ("next", "drain") and any(active[u] for u in range(len(progs)) if u != t):
            return True
    return False


def classify(case, failure):
    if len(case) < 4:
        return None
    name = case[0]
    if name == "S8_rule_query_twice" and failure.kind in ("incomplete-evaluation", "wrong-prefix", "wrong-results") \
            and overlapping_same_thread_target(case):
        return "C03/overlapping-evaluations-of-one-rule-query"
    return None
