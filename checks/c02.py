"""
C02 - no duplicated or dropped solutions in the conjunctive / else-if fragment (row MULTISETS), and the()/count
constraints see the true number of solutions.
"""
from __future__ import annotations

from collections import Counter

from mc.core import CaseResult, Failure, HarnessError
from models import eqlworld as W
from oracles import fol
from checks import eqlfront
from checks.c01 import A, L, X, Y, Z, make_world, names

PROPERTY = "C02"
LEVEL = "exploration"
RULE = ("all queries of the negation-normal conjunctive/else-if fragment with <= n leaves (thorough: additionally 4 leaves over "
        "a core of six atoms): atoms and negated atoms "
        "(comparisons, Predicate subclasses, symbolic functions), and_, and or_ only between operands over the same "
        "variable set (computed by the generator), 1-3 variables, several selections and domain contents; the "
        "MULTISET of rows must equal the projection of every satisfying total assignment; the() and "
        "an(Exactly(count-1|count|count+1)) must behave as the true count dictates. non-trivial = distinct cases "
        "with at least one solution and at least one non-solution")
ASSUMPTIONS = ["row order is not compared (C10 compares prefixes)", "CPython 3.12"]
BOUNDS = {"quick": {"leaves_2vars": 3, "leaves_3vars": 2},
          "thorough": {"leaves_2vars": 3, "leaves_2vars_core_atoms": 4, "core_atoms": 6, "leaves_3vars": 3}}
CHUNK = 300
RECYCLE_CHUNKS = 6
BUDGET_S = {"quick": 600, "thorough": 4000}

ATOMS2 = [
    ("cmp", "eq", A(X, "a"), L(0)),
    ("cmp", "eq", A(X, "b"), L(1)),
    ("cmp", "eq", A(Y, "a"), L(0)),
    ("cmp", "eq", A(X, "a"), A(Y, "a")),
    ("cmp", "lt", A(X, "b"), A(Y, "b")),
    ("cmp", "ne", X, Y),
    ("pred", "SameA", X, Y),
    ("pred", "AIs", Y, L(1)),
    ("func", "b_is", (("item", X), ("k", L(1)))),
]
ATOMS_PO = [
    ("cmp", "lt", ("call", X, "ts", ()), ("call", Y, "ts", ())),
    ("cmp", "ge", ("call", X, "fv", ()), ("call", Y, "fv", ())),
    ("cmp", "le", ("call", X, "ts", ()), ("call", A(X, "nxt"), "ts", ())),
]
ATOMS3 = [
    ("cmp", "eq", A(X, "a"), L(0)),
    ("cmp", "eq", A(X, "a"), A(Y, "a")),
    ("cmp", "eq", A(Y, "b"), A(Z, "b")),
    ("cmp", "ne", A(X, "b"), A(Z, "b")),
    ("cmp", "eq", A(Z, "a"), L(1)),
    ("pred", "SameA", X, Z),
]


def lits(atoms):
    out = []
    for a in atoms:
        out.append(a)
        out.append(("not", a))
    return out


def nnf_conds(n, atoms, memo):
    if n in memo:
        return memo[n]
    if n == 1:
        out = lits(atoms)
    else:
        out = []
        for k in range(1, n):
            for l in nnf_conds(k, atoms, memo):
                for r in nnf_conds(n - k, atoms, memo):
                    out.append(("and", l, r))
                    if fol.cond_vars(l) == fol.cond_vars(r):
                        out.append(("or", l, r))
    memo[n] = out
    return out


def mkq(kind, sels, c, names3):
    used = set()
    for s in sels:
        used |= fol.term_vars(s)
    if c is not None:
        used |= fol.cond_vars(c)
    return ("query", kind, tuple(sels), c, tuple(("dom", v) for v in names3 if v in used))


SELS2 = [("entity", (X,)), ("setof", (X, Y)), ("entity", (Y,)), ("entity", (A(X, "a"),)), ("setof", (Y, A(X, "b")))]
SELS3 = [("entity", (X,)), ("setof", (X, Y, Z)), ("setof", (Z, X))]
DOMS = [("D5",), ("sub3", 7, 7), ("sub3", 5, 6), ("D5shared",)]


def cases(tier, seed):
    out = []
    memo = {}
    for n in range(1, BOUNDS[tier]["leaves_2vars"] + 1):
        for c in nnf_conds(n, ATOMS2, memo):
            for kind, sels in SELS2:
                q = mkq(kind, sels, c, ("x", "y"))
                for d in (DOMS if n <= 2 else DOMS[:2]):
                    out.append((q, d, "an"))
                    if n <= 2 and d[0] == "D5" or (n == 3 and kind == "entity" and sels == (X,) and d[0] == "sub3"):
                        out.append((q, d, "counts"))
                    if n <= 2 and d[0] in ("D5", "sub3") and kind == "entity":
                        out.append((q, d, "reuse"))
    # order comparisons over partially ordered values (sets by inclusion, NaN): a negated comparison is not its
    # complementary comparison; <= 2 (3) leaves together with a literal comparison, a join and a Predicate
    po = [ATOMS2[0], ATOMS2[3], ATOMS2[6]] + ATOMS_PO
    memo_po = {}
    for n in range(1, (3 if tier == "thorough" else 2) + 1):
        for c in nnf_conds(n, po, memo_po):
            if not any(a in fol.subconds(c) for a in ATOMS_PO):
                continue
            for kind, sels in SELS2:
                q = mkq(kind, sels, c, ("x", "y"))
                for d in (DOMS if n <= 2 else DOMS[:2]):
                    out.append((q, d, "an"))
                    if d[0] == "D5" and n <= 2:
                        out.append((q, d, "counts"))
                    if d[0] in ("D5", "sub3") and kind == "entity" and n <= 2:
                        out.append((q, d, "reuse"))
    # thorough: 4 leaves over a core of six atoms (literal comparisons on both variables, join, order, Predicate,
    # symbolic function)
    if BOUNDS[tier].get("leaves_2vars_core_atoms"):
        core = [ATOMS2[i] for i in (0, 2, 3, 4, 6, 8)]
        memo = {}
        for c in nnf_conds(BOUNDS[tier]["leaves_2vars_core_atoms"], core, memo):
            for kind, sels in SELS2[:3]:
                q = mkq(kind, sels, c, ("x", "y"))
                for d in DOMS[:2]:
                    out.append((q, d, "an"))
    # one condition object at several positions of the query (c = x.a == 0; or_(and_(c, p), and_(not_(c), q)))
    for cc in (ATOMS2[0], ATOMS2[3], ATOMS2[4], ATOMS2[6], ATOMS2[8]):
        for cp, cq in ((ATOMS2[2], ATOMS2[7]), (ATOMS2[7], ATOMS2[1]), (ATOMS2[1], ATOMS2[2])):
            if cc in (cp, cq):
                continue
            for c in (("or", ("and", cc, cp), ("and", ("not", cc), cq)), ("and", cc, ("and", cp, cc)),
                      ("or", ("and", cp, cc), ("and", ("not", cc), cq)), ("and", ("and", cc, cp), cc)):
                # the fragment: or_ only between operands over the same variables (else-if form)
                if any(s_[0] == "or" and fol.cond_vars(s_[1]) != fol.cond_vars(s_[2]) for s_ in fol.subconds(c)):
                    continue
                for kind, sels in SELS2[:3]:
                    q = mkq(kind, sels, c, ("x", "y"))
                    for d in DOMS:
                        out.append((q, d, "shared"))
    memo = {}
    for n in range(1, BOUNDS[tier]["leaves_3vars"] + 1):
        for c in nnf_conds(n, ATOMS3, memo):
            for kind, sels in SELS3:
                q = mkq(kind, sels, c, ("x", "y", "z"))
                for d in DOMS[:3]:
                    out.append((q, d, "an"))
                out.append((q, ("sub3", 7, 7), "counts"))
    return out


def run_counts(q, world, exp_rows, res, label):
    """the() and Exactly(k) around the true count, on fresh queries each."""
    from krrood.entity_query_language import failures as F
    from krrood.entity_query_language.result_quantification_constraint import Exactly
    n = len(exp_rows)
    try:
        b = eqlfront.build(q, world, quantifier="the")
        r = b.query.evaluate()
        out = ("value", fol.row_key(b.row(r)))
    except F.NoSolutionFound:
        out = ("none",)
    except F.MultipleSolutionFound:
        out = ("multiple",)
    except Exception as e:
        out = ("crash", type(e).__name__)
    exp = ("none",) if n == 0 else ("multiple",) if n > 1 else ("value", fol.row_key(exp_rows[0]))
    res.evaluations += 1
    if out != exp:
        res.failures.append(Failure("the-count", f"{label}: the() gave {out}, true number of solutions is {n}"))
    for k in {max(0, n - 1), n, n + 1}:
        try:
            b = eqlfront.build(q, world, quantification=Exactly(k))
            rows = b.rows()
            o = ("rows", len(rows))
        except F.GreaterThanExpectedNumberOfSolutions:
            o = ("greater",)
        except F.LessThanExpectedNumberOfSolutions:
            o = ("less",)
        except Exception as e:
            o = ("crash", type(e).__name__)
        e = ("rows", n) if k == n else ("greater",) if n > k else ("less",)
        res.evaluations += 1
        if o != e:
            res.failures.append(Failure("exactly-count", f"{label}: Exactly({k}) gave {o}, true count {n}"))


def run_case(case):
    q, dspec, mode = case
    world = make_world(dspec)
    res = CaseResult()
    exp_rows = fol.rows(q, world)
    label = f"{fol.show_query(q)} on {dspec}"
    if mode == "counts":
        res.evaluations = 0
        run_counts(q, world, exp_rows, res, label)
        res.features = ["mode:counts", "count:" + ("0" if not exp_rows else "1" if len(exp_rows) == 1 else "many")]
        res.outcome_key = ("counts", len(exp_rows))
        return res
    exp = Counter(map(fol.row_key, exp_rows))
    try:
        if mode == "reuse":
            # the() on the same variables first (it abandons the evaluation as soon as a second solution shows up), then
            # a count-limited an(); the variables are then used again: the true solutions must still all be there
            from krrood.entity_query_language import failures as F
            from krrood.entity_query_language.result_quantification_constraint import AtMost
            first = eqlfront.build(q, world, quantifier="the")
            try:
                first.query.evaluate()
            except (F.NoSolutionFound, F.MultipleSolutionFound):
                pass
            second = eqlfront.build(q, world, quantification=AtMost(1), shared_vars=first.vars)
            try:
                second.rows()
            except F.GreaterThanExpectedNumberOfSolutions:
                pass
            built = eqlfront.build(q, world, shared_vars=first.vars)
        else:
            built = eqlfront.build(q, world, share_terms=(mode == "shared"))
        got_rows = built.rows()
    except Exception as e:
        res.failures.append(Failure("crash", f"{label}: {type(e).__name__}: {e}"))
        return res
    got = Counter(map(fol.row_key, got_rows))
    n_total = 1
    for d in q[4]:
        n_total *= len(world[d[1]])
    if 0 < len(exp_rows) < n_total:
        res.nontrivial_key = (q, dspec)
    feats = {"mode:" + mode, "vars:%d" % len(q[4]), "sel:" + q[1] + str(len(q[2]))}
    for s in fol.subconds(q[3]):
        feats.add("node:" + s[0])
    if any(v > 1 for v in exp.values()):
        feats.add("expected-has-repeated-rows")
    res.features = feats
    res.outcome_key = tuple(sorted(got.items()))
    if got != exp:
        dup = {k: v for k, v in got.items() if v > exp.get(k, 0)}
        mis = {k: v for k, v in exp.items() if v > got.get(k, 0)}
        kind = "duplicated-solution" if dup and not mis else "dropped-solution" if mis and not dup else "wrong-multiset"
        res.failures.append(Failure(kind, f"{label}: too many {names(dup, world)} "
                                          f"{[got[k] - exp.get(k, 0) for k in sorted(dup)]}; too few {names(mis, world)}; "
                                          f"expected {len(exp_rows)} rows got {len(got_rows)}"))
    elif res.nontrivial_key is not None:
        res.sample = {"query": fol.show_query(q), "domains": list(dspec), "n_rows": len(exp_rows)}
    return res


def finish(run):
    if run.exhaustive and not run.failures:
        for k in ("node:and", "node:or", "node:not", "node:pred", "node:func", "vars:3", "expected-has-repeated-rows",
                  "count:0", "count:1", "count:many"):
            if not run.features.get(k):
                raise HarnessError(f"vacuous: {k} never exercised")


def classify(case, failure):
    return None


def repro(case):
    return f"""# C02 replay: {fol.show_query(case[0])} on {case[1]} mode {case[2]}
import sys; sys.path.insert(0, '/verif')
from checks import c02
for f in c02.run_case({case!r}).failures: print(f.kind, f.detail)
"""


def cluster_key(case, f):
    q = case[0]
    c = q[3]
    out = []
    for s in fol.subconds(c):
        if s[0] == "or":
            kinds = {t[0] for side in (s[1], s[2]) for t in fol.subconds(side)}
            if "pred" in kinds or "func" in kinds:
                out.append("or-with-pred/func")
            else:
                out.append("or-plain")
    return tuple(sorted(set(out))) + (case[2],)


def _m_elseif_always_right():
    from krrood.entity_query_language import symbolic as S
    def _evaluate__(self, sources=None, parent=None):
        sources = sources or {}
        self._eval_parent_ = parent
        yield from self.evaluate_left(sources)
        for v in self.evaluate_right(sources):
            if v.is_true:
                yield v
    S.ElseIf._evaluate__ = _evaluate__


def _m_variable_ignores_binding():
    from krrood.entity_query_language import symbolic as S
    orig = S.Variable._evaluate__
    def _evaluate__(self, sources=None, parent=None):
        sources = sources or {}
        if self._id_ in sources and self._domain_ and type(self) is S.Variable and isinstance(parent, S.Attribute) \
                and parent._attr_name_ == "b":
            sources = {k: v for k, v in sources.items() if k != self._id_}
        yield from orig(self, sources, parent)
    S.Variable._evaluate__ = _evaluate__


def _m_pred_counts_as_variable():
    from krrood.entity_query_language import symbolic as S, entity as E
    def optimize_or(left, right):
        lv = left._unique_variables_.filter(lambda v: not isinstance(v.value, S.Literal))
        rv = right._unique_variables_.filter(lambda v: not isinstance(v.value, S.Literal))
        if set(lv.unwrapped_values) == set(rv.unwrapped_values):
            return S.ElseIf(left, right)
        return S.Union(left, right)
    S.optimize_or = optimize_or
    E.optimize_or = optimize_or


MUTANTS = {"elseif_always_right": _m_elseif_always_right, "variable_ignores_binding": _m_variable_ignores_binding,
           "pred_counts_as_variable": _m_pred_counts_as_variable}


def apply_mutant(name):
    MUTANTS[name]()
