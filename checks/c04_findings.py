"""Structural signatures of recorded C04 findings (shared with C05, which persists the same graphs)."""

# classes of the curated model that are stored through an AlternativeMapping whose create_from_dao copies references
ALT_TO_ALT_FIELDS = {("OTeam", "rival")}


def edges(spec):
    out = []
    for name, cls, fields in spec:
        for f, v in fields:
            if isinstance(v, tuple) and v and v[0] == "ref" and v[1] is not None:
                out.append((name, f, cls, v[1]))
            elif isinstance(v, tuple) and v and v[0] in ("list", "set"):
                out += [(name, f, cls, t) for t in v[1]]
    return out


def alt_to_alt_reference_on_a_cycle(spec):
    """some reference from an alternatively mapped object to an alternatively mapped object lies on a cycle: the final
    object of the first one is built (by create_from_dao, which copies the reference) before the second one exists"""
    es = edges(spec)
    succ = {}
    for s, f, cls, t in es:
        succ.setdefault(s, set()).add(t)

    def reaches(a, b):
        seen, todo = set(), [a]
        while todo:
            n = todo.pop()
            if n == b:
                return True
            if n in seen:
                continue
            seen.add(n)
            todo += list(succ.get(n, ()))
        return False
    return any((cls, f) in ALT_TO_ALT_FIELDS and reaches(t, s) for s, f, cls, t in es)


def classify(case, failure):
    spec = case[0] if case and isinstance(case[0], tuple) and case[0] and isinstance(case[0][0], tuple) else case
    try:
        on_cycle = alt_to_alt_reference_on_a_cycle(spec)
    except Exception:
        return None
    if failure.kind == "not-isomorphic" and "sharing structure differs" in failure.detail and on_cycle:
        return "C04/cycle-through-reference-between-alternatively-mapped-objects"
    return None
