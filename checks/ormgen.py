"""
Shared machinery for the ORM checks (C06, C05, C04): generate a dataclass model module, run the real ORMatic pipeline on
it, import the generated SQLAlchemy module, and clean everything up again (mappers, caches, sys.modules).
"""
from __future__ import annotations

import os
import shutil
import sys
import tempfile
import types

from models import gen

_TMP = [None]
_COUNTER = [0]


def tmpdir():
    if _TMP[0] is None or not os.path.isdir(_TMP[0]):
        _TMP[0] = tempfile.mkdtemp(prefix="krrood_verif_orm_")
        import atexit
        atexit.register(lambda d=_TMP[0]: shutil.rmtree(d, ignore_errors=True))
    return _TMP[0]


class NoBlack:
    """the `black` pass of the generator is pure formatting (0.35 s per file): replaced by a no-op for the bulk of the models"""

    def __enter__(self):
        from krrood.ormatic import sqlalchemy_generator as G
        self.G = G
        self.orig = G.subprocess.run
        G.subprocess = types.SimpleNamespace(run=lambda *a, **k: None)
        return self

    def __exit__(self, *a):
        import subprocess
        self.G.subprocess = subprocess


LAST_DIAGRAM = [None]


def generate_orm_source(classes, alternative_mappings=(), type_mappings=None, with_black=False, diagram=None):
    """runs ClassDiagram -> ORMatic -> to_sqlalchemy_file on the given classes and returns the generated text;
    `diagram`: an existing ClassDiagram to generate from (a second ORMatic over the same diagram object)"""
    from krrood.class_diagrams.class_diagram import ClassDiagram
    from krrood.ormatic.ormatic import ORMatic
    diagram = diagram if diagram is not None else ClassDiagram(list(classes))
    LAST_DIAGRAM[0] = diagram
    kwargs = {}
    if alternative_mappings:
        kwargs["alternative_mappings"] = list(alternative_mappings)
    if type_mappings:
        kwargs["type_mappings"] = dict(type_mappings)
    orm = ORMatic(class_dependency_graph=diagram, **kwargs)
    orm.make_all_tables()
    _COUNTER[0] += 1
    path = os.path.join(tmpdir(), f"orm_{os.getpid()}_{_COUNTER[0]}.py")
    if with_black:
        with open(path, "w") as f:
            orm.to_sqlalchemy_file(f)
    else:
        with NoBlack():
            with open(path, "w") as f:
                orm.to_sqlalchemy_file(f)
    with open(path) as f:
        text = f.read()
    os.remove(path)
    return text


def load_orm(text, prefix="vorm"):
    _COUNTER[0] += 1
    name = f"{prefix}_{os.getpid()}_{_COUNTER[0]}"
    mod = types.ModuleType(name)
    mod.__file__ = f"<generated {name}>"
    sys.modules[name] = mod
    try:
        exec(compile(text, mod.__file__, "exec", dont_inherit=True), mod.__dict__)
    except Exception:
        sys.modules.pop(name, None)
        raise
    return mod


def cleanup(*modules):
    """forget mappers, DAO lookup caches and generated modules so that the next model starts clean"""
    import sqlalchemy.orm
    from krrood.ormatic import dao
    try:
        sqlalchemy.orm.clear_mappers()
    except Exception:
        pass
    dao.get_dao_class.cache_clear()
    dao.get_alternative_mapping.cache_clear()
    for m in modules:
        if m is not None:
            sys.modules.pop(m.__name__, None)
