"""
C19 - unresolvable JSON type tags fail with the documented serialisation errors only.

Fault enumeration: every JSON type under the tag key plus a dotted-name grammar; the outcome of from_json must be a
JSONSerializationError subclass (the exact documented subclass for the four documented cases), never another
exception and never an object; the control group (resolvable, deserialisable) must yield exactly that class.
"""
from __future__ import annotations

import itertools
import json

from mc.core import CaseResult, Failure, HarnessError

PROPERTY = "C19"
LEVEL = "fault_enumeration"
RULE = ("every JSON type under the type-tag key (absent, null, booleans, ints, floats, lists, objects, strings) and "
        "the string grammar dots{0,2}.module.sep.attr.dots{0,1} with module in {empty, importable, package.submodule, "
        "missing, missing parent, existing-but-import-fails, name with space, unicode} and attr in {missing, function, "
        "module, TypeVar, instance, unhashable values (list, dict, set, value-equal dataclass instance, sys.modules), plain class, abstract serializer base, deserialisable classes}; each document goes "
        "through json.dumps/loads and from_json, also nested in a list; non-trivial = tags that are not resolvable")
ASSUMPTIONS = ["documents are first passed through json.dumps/json.loads, so only JSON-representable tags occur"]
BOUNDS = {"quick": {"tags": "full grammar"}, "thorough": {"tags": "full grammar + every prefix/suffix mutation of two valid tags"}}
CHUNK = 400

VALID = {"models.jsonmodels.Point": "Point1", "models.jsonmodels.Box": "Box", "models.jsonmodels.NoFromJson": "NoFromJson",
         "models.jsonmodels.Foreign": "Foreign", "uuid.UUID": "UUID", "models.jsonmodels2.Point": "Point2"}

MODULES = ["", "models.jsonmodels", "models", "os.path", "uuid", "no_such_module_xyz", "no_such_pkg.sub",
           "models.no_such_sub", "models.jsonbroken", "models.jsonbroken2", "mod with space", "mödule", "os", "typing",
           "krrood.adapters.json_serializer", "models.jsonmodels.Box", "1", "-", "sys"]
ATTRS = ["", "NoSuchName", "a_function", "an_instance", "a_list", "a_dict", "a_set", "a_value_instance", "__all__", "__path__",
         "__annotations__", "modules", "PlainClass", "Box", "NoFromJson", "Foreign", "UUID", "T",
         "path", "getcwd", "SubclassJSONSerializer", "JSON_TYPE_NAME", "Point", "__name__", "__doc__", "with space", "ü"]
SEPS = [".", ".."]
PRE = ["", ".", ".."]
POST = ["", "."]


def cases(tier, seed):
    out = []
    # non-string JSON values under the key, and the key absent
    for v in (("absent",), ("json", None), ("json", True), ("json", False), ("json", 0), ("json", 5), ("json", -1),
              ("json", 1.5), ("json", 0.0), ("json", []), ("json", [1]), ("json", ["models.jsonmodels.Box"]),
              ("json", {}), ("json", {"a": 1}), ("json", {"__json_type__": "uuid.UUID"}), ("json", ""), ("json", " "),
              ("json", "."), ("json", ".."), ("json", "..."), ("json", "Box"), ("json", "nodots"), ("json", "\x00"),
              ("json", "a.b.c.d.e.f.g"),
              # very long dotted paths: importlib imports the parents of a dotted name recursively
              ("json", "a." * 3000 + "X"), ("json", "models." + "a." * 3000 + "X"), ("json", "models.jsonmodels." + "Box." * 2000 + "Box"),
              ("json", "." * 3000 + "X"), ("json", "x" * 100000 + ".Y")):
        out.append(v)
    seen = set()
    for pre, m, sep, a, post in itertools.product(PRE, MODULES, SEPS, ATTRS, POST):
        tag = pre + m + sep + a + post
        if tag not in seen:
            seen.add(tag)
            out.append(("json", tag))
    if tier == "thorough":
        for base in ("models.jsonmodels.Box", "uuid.UUID"):
            for i in range(len(base) + 1):
                for ins in (".", " ", "x", ""):
                    for cut in (0, 1):
                        tag = base[:i] + ins + base[i + cut:]
                        if tag not in seen:
                            seen.add(tag)
                            out.append(("json", tag))
    return [c + (wrap,) for c in out for wrap in ("top", "in_list")]


def classify_expected(case):
    """returns ('valid', classkey) or ('error', exact_class_name|None)"""
    if case[0] == "absent":
        return ("error", "MissingTypeError")
    tag = case[1]
    if isinstance(tag, str) and tag in VALID:
        return ("valid", VALID[tag])
    if not tag:  # null, False, 0, 0.0, "", [], {} : 'missing' in the documented sense
        return ("error", None)
    if isinstance(tag, str) and "." not in tag:
        return ("error", "InvalidTypeFormatError")
    if isinstance(tag, str) and tag.rsplit(".", 1)[0] in ("no_such_module_xyz", "no_such_pkg.sub"):
        return ("error", "UnknownModuleError")
    if isinstance(tag, str) and tag.rsplit(".", 1)[0] in ("models.jsonmodels", "uuid") and tag.rsplit(".", 1)[1] == "NoSuchName":
        return ("error", "ClassNotFoundError")
    return ("error", None)


def run_case(case):
    from krrood.adapters import json_serializer as J
    import models.jsonmodels as M
    import models.jsonmodels2 as M2
    import uuid
    res = CaseResult()
    doc = {"payload": 1, "value": "12345678-1234-5678-1234-567812345678", "v": 2, "x": 1, "lat": 1.0, "lon": 2.0}
    if case[0] == "json":
        doc[J.JSON_TYPE_NAME] = case[1]
    if case[-1] == "in_list":
        doc = [1, doc]
    data = json.loads(json.dumps(doc))
    def attempt():
        try:
            r = J.from_json(json.loads(json.dumps(doc)))
            return ("returned", r[1] if case[-1] == "in_list" else r)
        except J.JSONSerializationError as e:
            return ("serialization-error", type(e).__name__)
        except BaseException as e:
            return ("other-exception", type(e).__name__, str(e)[:100])
    outcome = attempt()
    # the same document again (twice): a tag is judged on its own, not on what was deserialised before
    for again in (2, 3):
        o = attempt()
        if o[:2] != outcome[:2] and not (o[0] == outcome[0] == "returned" and type(o[1]) is type(outcome[1])):
            res.failures.append(Failure("repeat-differs" if o[0] != "other-exception" else "unrelated-exception",
                                        f"tag {case[1:-1]!r} ({case[-1]}): attempt {again} gave {o[:3]}, the first attempt {outcome[:3]}"))
            break
    kind, want = classify_expected(case)
    classes = {"Point1": M.Point, "Box": M.Box, "NoFromJson": M.NoFromJson, "Foreign": M.Foreign, "UUID": uuid.UUID, "Point2": M2.Point}
    res.features = ["expected:" + kind, "outcome:" + outcome[0] + (":" + outcome[1] if outcome[0] != "returned" else "")]
    res.outcome_key = (outcome[0], outcome[1] if outcome[0] != "returned" else type(outcome[1]).__name__)
    if kind == "valid":
        if outcome[0] != "returned" or type(outcome[1]) is not classes[want]:
            res.failures.append(Failure("control-group", f"tag {case[1]!r}: expected an instance of {want}, got {outcome}"))
    else:
        res.nontrivial_key = case[:-1]
        if outcome[0] == "returned":
            res.failures.append(Failure("object-returned", f"tag {case[1:]!r}: returned {outcome[1]!r} of type "
                                                           f"{type(outcome[1]).__name__} for an unresolvable tag"))
        elif outcome[0] == "other-exception":
            res.failures.append(Failure("unrelated-exception", f"tag {case[1:-1]!r} ({case[-1]}): raised {outcome[1]}: {outcome[2]}"))
        elif want is not None and outcome[1] != want:
            res.failures.append(Failure("wrong-error-class", f"tag {case[1]!r}: raised {outcome[1]}, documented {want}"))
    if kind == "error" and outcome[0] == "serialization-error" and isinstance(case[1] if len(case) > 2 else None, str) \
            and len(case[1]) > 12:
        res.sample = {"tag": case[1], "raised": outcome[1]}
    return res


def finish(run):
    if run.exhaustive and not run.failures:
        for k in ("outcome:serialization-error:MissingTypeError", "outcome:serialization-error:InvalidTypeFormatError",
                  "outcome:serialization-error:UnknownModuleError", "outcome:serialization-error:ClassNotFoundError",
                  "outcome:serialization-error:ClassNotDeserializableError", "outcome:returned"):
            if not run.features.get(k):
                raise HarnessError(f"vacuous: {k} never observed")


def classify(case, failure):
    return None


def cluster_key(case, f):
    return (f.detail.split("raised")[-1][:60],)


def repro(case):
    return f"""# C19 replay
import sys; sys.path.insert(0, '/verif')
from checks import c19
for f in c19.run_case({case!r}).failures: print(f.kind, f.detail)
"""


def _m_importerror_only_exact():
    from krrood.adapters import json_serializer as J
    import importlib
    orig = J.SubclassJSONSerializer.from_json.__func__
    real_import = importlib.import_module
    class Shim:
        @staticmethod
        def import_module(name):
            try:
                return real_import(name)
            except ModuleNotFoundError as exc:
                if exc.name and not name.startswith(exc.name):
                    raise KeyError(name)
                raise
    J.importlib = Shim


def _m_no_issubclass_guard():
    from krrood.adapters import json_serializer as J
    import builtins
    # plain classes are instantiated instead of rejected
    orig_get = J.JSONSerializableTypeRegistry.get_deserializer
    def get_deserializer(self, type_class):
        r = orig_get(self, type_class)
        if r is None and isinstance(type_class, type) and type_class.__name__ == "PlainClass":
            return lambda data, **kw: type_class()
        return r
    J.JSONSerializableTypeRegistry.get_deserializer = get_deserializer


MUTANTS = {"importerror_only_exact": _m_importerror_only_exact, "no_issubclass_guard": _m_no_issubclass_guard}


def apply_mutant(name):
    MUTANTS[name]()
