"""
C09 - result quantifiers enforce exactly the stated solution count.

Complete small space: number of solutions n in 0..N, every Exactly/AtLeast/AtMost/Range constraint with
bounds 0..K, no constraint, the(...); entity and set_of selections; solutions produced by a filtering
condition (so that "number of solutions" is not "size of the domain") and by a two-variable product.
The iterator is consumed one next() at a time and compared after every step with a reference automaton
whose state is the number of solutions seen so far.
"""
from __future__ import annotations

from dataclasses import dataclass

from mc.core import CaseResult, Failure

PROPERTY = "C09"
LEVEL = "model_checking"
RULE = ("all (shape, n, constraint) triples: shape in {entity, set_of, filtered entity, two-variable product}, "
        "n solutions, constraint in none/Exactly(k)/AtLeast(k)/AtMost(k)/Range(a,b)/the, plus invalid "
        "constructions; each iterator stepped with next() until it stops or raises and compared step by step "
        "with the reference automaton. non-trivial = the constraint is violated or tight (n within 1 of a bound)")
ASSUMPTIONS = ["a generator that raised is finished; only the trace up to and including the first exception "
               "is compared"]
BOUNDS = {"quick": {"n_max": 6, "k_max": 7}, "thorough": {"n_max": 9, "k_max": 10}}
CHUNK = 100


@dataclass(unsafe_hash=True)
class Obj:
    k: int
    good: bool = True


@dataclass(eq=False)
class Bag:
    """an entity whose truth value is False when it is empty (defines __len__)"""
    k: int
    good: bool = True
    n: int = 0

    def __len__(self):
        return self.n


SHAPES = ["entity", "set_of", "filtered", "product", "filtered_set_of", "filtered_falsy", "falsy_first"]


def cases(tier, seed):
    b = BOUNDS[tier]
    N, K = b["n_max"], b["k_max"]
    out = []
    cons = [("none",)]
    cons += [("exactly", k) for k in range(K + 1)]
    cons += [("atleast", k) for k in range(K + 1)]
    cons += [("atmost", k) for k in range(K + 1)]
    cons += [("range", a, bb) for a in range(K + 1) for bb in range(a, K + 1)]
    cons += [("the",)]
    for shape in SHAPES:
        for n in range(N + 1):
            if shape == "product" and n not in (0, 1, 2, 3, 4, 6, 9):
                continue
            for c in cons:
                out.append(("run", shape, n, c))
    # the(...) used as a sub-query inside another query keeps its own errors
    for n in range(N + 1):
        for outer in ("an", "set_of", "the_outer"):
            out.append(("nested_the", n, outer))
    # the same quantified query evaluated again: after j steps of a first evaluation that is then closed, dropped or
    # left open, a second evaluation must follow the reference automaton from its initial state (the count of an
    # evaluation is that evaluation's own), and the first one - if left open - must then continue as if alone
    RN = min(N, b.get("rerun_n_max", N))
    rcons = [c for c in cons if c[0] in ("none", "the") or max(c[1:]) <= RN + 1]
    for shape in ("entity", "filtered", "set_of", "product"):
        for n in range(RN + 1):
            if shape == "product" and n not in (0, 1, 2, 3, 4, 6, 9):
                continue
            for c in rcons:
                if c[0] == "the":
                    out.append(("rerun", shape, n, c, 0, "twice"))
                    continue
                for j in range(0, n + 2):
                    for how in ("close", "drop", "open"):
                        out.append(("rerun", shape, n, c, j, how))
    # constructions that must be rejected / accepted
    for k in range(-3, 3):
        for kind in ("exactly", "atleast", "atmost"):
            out.append(("construct", kind, k))
    for a in range(-2, 4):
        for bb in range(-2, 4):
            out.append(("construct", "range", a, bb))
    return out


def make_constraint(c):
    from krrood.entity_query_language.result_quantification_constraint import Exactly, AtLeast, AtMost, Range
    if c[0] == "none" or c[0] == "the":
        return None
    if c[0] == "exactly":
        return Exactly(c[1])
    if c[0] == "atleast":
        return AtLeast(c[1])
    if c[0] == "atmost":
        return AtMost(c[1])
    if c[0] == "range":
        return Range(AtLeast(c[1]), AtMost(c[2]))
    raise ValueError(c)


def bounds_of(c):
    """(lower, upper) with None for absent."""
    if c[0] == "none":
        return None, None
    if c[0] == "the":
        return 1, 1
    if c[0] == "exactly":
        return c[1], c[1]
    if c[0] == "atleast":
        return c[1], None
    if c[0] == "atmost":
        return None, c[1]
    if c[0] == "range":
        return c[1], c[2]


def reference_trace(n, c):
    """The reference automaton: state = solutions seen so far."""
    lo, hi = bounds_of(c)
    trace = []
    count = 0
    while True:
        if count < n:
            count += 1
            if hi is not None and count > hi:
                trace.append(("raise", "GreaterThanExpectedNumberOfSolutions"))
                return trace
            trace.append(("yield", count - 1))
        else:
            if lo is not None and count < lo:
                trace.append(("raise", "LessThanExpectedNumberOfSolutions"))
            else:
                trace.append(("stop",))
            return trace


def build_query(shape, n, c):
    from krrood.entity_query_language.entity import entity, set_of, let, and_
    from krrood.entity_query_language.quantify_entity import an, the
    q = the if c[0] == "the" else (lambda e: an(e, quantification=make_constraint(c)))
    if shape in ("entity", "set_of"):
        dom = [Obj(i) for i in range(n)]
        x = let(Obj, dom, name="x")
        if shape == "entity":
            return q(entity(x)), dom, lambda r: r
        return q(set_of([x])), dom, lambda r: r[x]
    if shape in ("filtered", "filtered_set_of"):
        # n good objects interleaved with bad ones, one bad first and two bad last
        dom = [Obj(-1, False)]
        for i in range(n):
            dom.append(Obj(i, True))
            dom.append(Obj(100 + i, False))
        dom.append(Obj(-2, False))
        x = let(Obj, dom, name="x")
        good = [o for o in dom if o.good]
        if shape == "filtered":
            return q(entity(x, x.good == True)), good, lambda r: r
        return q(set_of([x], x.good == True)), good, lambda r: r[x]
    if shape in ("filtered_falsy", "falsy_first"):
        # solutions that are falsy Python objects (empty containers) must count like any other solution
        dom = [Bag(-1, False, 1)]
        for i in range(n):
            empty = (i % 2 == 0) if shape == "filtered_falsy" else (i == 0)
            dom.append(Bag(i, True, 0 if empty else 2))
            dom.append(Bag(100 + i, False, i % 2))
        x = let(Bag, dom, name="x")
        good = [o for o in dom if o.good]
        return q(entity(x, x.good == True)), good, lambda r: r
    if shape == "product":
        fac = {0: (0, 3), 1: (1, 1), 2: (1, 2), 3: (3, 1), 4: (2, 2), 6: (2, 3), 9: (3, 3)}[n]
        dx = [Obj(i) for i in range(fac[0])]
        dy = [Obj(10 + i) for i in range(fac[1])]
        x = let(Obj, dx, name="x")
        y = let(Obj, dy, name="y")
        expected = [(a, b) for a in dx for b in dy]
        return q(set_of([x, y], x.k != y.k)), expected, lambda r: (r[x], r[y])
    raise ValueError(shape)


def observed_trace(shape, n, c):
    from krrood.entity_query_language import failures as F
    query, expected, unwrap = build_query(shape, n, c)
    trace, got = [], []
    if c[0] == "the":
        try:
            r = query.evaluate()
            got.append(unwrap(r))
            trace.append(("return",))
        except F.MultipleSolutionFound:
            trace.append(("raise", "MultipleSolutionFound"))
        except F.NoSolutionFound:
            trace.append(("raise", "NoSolutionFound"))
        except Exception as e:
            trace.append(("raise", type(e).__name__))
        return trace, got, expected
    it = iter(query.evaluate())
    for _ in range(n + 3):
        try:
            r = next(it)
            got.append(unwrap(r))
            trace.append(("yield", len(got) - 1))
        except StopIteration:
            trace.append(("stop",))
            break
        except (F.GreaterThanExpectedNumberOfSolutions, F.LessThanExpectedNumberOfSolutions) as e:
            # exact class: the() subclasses must not leak out of an()
            trace.append(("raise", type(e).__name__))
            break
        except Exception as e:
            trace.append(("raise", type(e).__name__))
            break
    return trace, got, expected


def _drive(it, unwrap, steps, F):
    """Advance an evaluation by at most `steps` steps; returns (trace, results, finished)."""
    trace, got = [], []
    for _ in range(steps):
        try:
            r = next(it)
            got.append(unwrap(r))
            trace.append(("yield",))
        except StopIteration:
            trace.append(("stop",))
            return trace, got, True
        except Exception as e:
            trace.append(("raise", type(e).__name__))
            return trace, got, True
    return trace, got, False


def run_rerun(case, res):
    from krrood.entity_query_language import failures as F
    _, shape, n, c, j, how = case
    query, expected, unwrap = build_query(shape, n, c)
    ids = lambda v: tuple(id(p) for p in v) if isinstance(v, tuple) else id(v)
    strip = lambda tr: [(t[0],) if t[0] == "yield" else t for t in tr]
    res.features = ["shape:rerun:" + shape, "rerun:" + how]
    if c[0] == "the":
        outs = []
        for _ in range(3):
            try:
                outs.append(("return", ids(unwrap(query.evaluate()))))
            except Exception as e:
                outs.append(("raise", type(e).__name__))
        exp = ("return", ids(expected[0])) if n == 1 else ("raise", "NoSolutionFound" if n == 0 else "MultipleSolutionFound")
        res.transitions = 3
        res.states = [(case, i) for i in range(3)]
        res.outcome_key = ("rerun-the", exp[0], exp[1] if exp[0] == "raise" else "")
        res.nontrivial_key = case
        if any(o != exp for o in outs):
            res.failures.append(Failure("rerun-the", f"{case}: three evaluations of one the(...) gave {[o[:2] if o[0]=='raise' else o[0] for o in outs]}, "
                                                     f"expected {exp[0]} {exp[1] if exp[0]=='raise' else ''} every time"))
        return res
    ref = strip(reference_trace(n, c))
    it1 = iter(query.evaluate())
    t1, g1, fin1 = _drive(it1, unwrap, j, F)
    if t1 != ref[:len(t1)]:
        res.failures.append(Failure("trace-mismatch", f"{case}: first evaluation observed {t1}, expected a prefix of {ref}"))
        return res
    if how == "close":
        it1.close() if hasattr(it1, "close") else None
    elif how == "drop":
        del it1
    t2, g2, fin2 = _drive(iter(query.evaluate()), unwrap, n + 3, F)
    res.transitions = len(t1) + len(t2)
    res.states = [(case, i) for i in range(res.transitions + 1)]
    res.outcome_key = ("rerun", how, tuple(t2[-1]) if t2 else (), fin1)
    if j and not fin1:
        res.nontrivial_key = case
    res.features.append("rerun-end:" + (t2[-1][0] if t2 else "none"))
    if t2 != ref:
        res.failures.append(Failure("rerun-trace-mismatch", f"{case}: after {j} steps of a first evaluation ({how}) the second "
                                                            f"evaluation observed {t2}, expected {ref}"))
        return res
    exp_ids = [ids(e) for e in expected]
    if sorted(map(ids, g2)) != sorted(exp_ids[:len(g2)]) and not (set(map(ids, g2)) <= set(exp_ids) and len(set(map(ids, g2))) == len(g2)):
        res.failures.append(Failure("wrong-solutions", f"{case}: second evaluation yielded {g2}"))
    if how == "open" and not fin1:
        t3, g3, _ = _drive(it1, unwrap, n + 3, F)
        res.transitions += len(t3)
        if t1 + t3 != ref:
            res.failures.append(Failure("rerun-first-continues-wrong", f"{case}: the first evaluation, continued after a complete second "
                                                                       f"one, observed {t1 + t3}, expected {ref}"))
        else:
            allg = list(map(ids, g1 + g3))
            if len(set(allg)) != len(allg) or not set(allg) <= set(exp_ids):
                res.failures.append(Failure("wrong-solutions", f"{case}: first evaluation yielded {g1 + g3}"))
    return res


def run_nested_the(case, res):
    from krrood.entity_query_language import failures as F
    from krrood.entity_query_language.entity import entity, set_of, let
    from krrood.entity_query_language.quantify_entity import an, the
    _, n, outer = case
    inner_dom = [Obj(-1, False)] + [Obj(i, True) for i in range(n)] + [Obj(-2, False)]
    outer_dom = [Obj(i) for i in range(3)] + [Obj(0)]
    y = let(Obj, inner_dom, name="y")
    x = let(Obj, outer_dom, name="x")
    sub = the(entity(y, y.good == True))
    res.transitions = 1
    res.states = [case]
    try:
        if outer == "an":
            got = [id(r) for r in an(entity(x, x.k == sub.k)).evaluate()]
        elif outer == "set_of":
            got = [id(r[x]) for r in an(set_of([x], x.k == sub.k)).evaluate()]
        else:
            got = [id(the(entity(x, x.k == sub.k, x is not None)).evaluate())]
        outcome = ("rows", tuple(got))
    except Exception as e:
        outcome = ("raise", type(e).__name__)
    if n == 0:
        exp = ("raise", "NoSolutionFound")
    elif n > 1:
        exp = ("raise", "MultipleSolutionFound")
    else:
        match = [id(o) for o in outer_dom if o.k == 0]
        exp = ("rows", tuple(match)) if outer != "the_outer" else ("raise", "MultipleSolutionFound")
    res.outcome_key = ("nested_the",) + outcome[:1] + ((outcome[1],) if outcome[0] == "raise" else ())
    res.nontrivial_key = case
    res.features = ["shape:nested_the", "end:nested:" + (outcome[1] if outcome[0] == "raise" else "rows")]
    ok = outcome == exp if outcome[0] == "raise" or exp[0] == "raise" else sorted(outcome[1]) == sorted(exp[1])
    if not ok:
        res.failures.append(Failure("nested-the", f"{case}: the(...) with {n} solutions nested in {outer}: got "
                                                  f"{outcome[0]} {outcome[1] if outcome[0] == 'raise' else len(outcome[1])}, expected {exp[0]} "
                                                  f"{exp[1] if exp[0] == 'raise' else len(exp[1])}"))
    return res


def run_case(case):
    res = CaseResult(sample=list(case))
    if case[0] == "construct":
        return run_construct(case, res)
    if case[0] == "nested_the":
        return run_nested_the(case, res)
    if case[0] == "rerun":
        return run_rerun(case, res)
    _, shape, n, c = case
    lo, hi = bounds_of(c)
    try:
        obs, got, expected = observed_trace(shape, n, c)
    except Exception as e:
        res.failures.append(Failure("crash", f"building/evaluating raised {type(e).__name__}: {e}"))
        return res
    if c[0] == "the":
        ref = [("return",)] if n == 1 else [("raise", "NoSolutionFound" if n == 0 else "MultipleSolutionFound")]
    else:
        ref = reference_trace(n, c)
    res.transitions = len(obs)
    res.states = [(n, c, i) for i in range(len(obs) + 1)]
    res.outcome_key = (tuple(obs[-1]), len(obs))
    tight = (lo is not None and abs(n - lo) <= 1) or (hi is not None and abs(n - hi) <= 1)
    if tight:
        res.nontrivial_key = case
    res.features = ["shape:" + shape, "constraint:" + c[0], "end:" + obs[-1][0] + (":" + obs[-1][1] if obs[-1][0] == "raise" else "")]
    if obs != ref:
        res.failures.append(Failure("trace-mismatch", f"observed {obs} expected {ref}"))
    else:
        # yielded values are the solutions, in order, no duplicates, never beyond the upper bound
        if hi is not None and len(got) > hi:
            res.failures.append(Failure("yielded-beyond-upper-bound", f"{len(got)} > {hi}"))
        exp_prefix = expected[:len(got)]
        same = all((a is b) if not isinstance(a, tuple) else all(p is q for p, q in zip(a, b))
                   for a, b in zip(got, exp_prefix)) and len(got) == len(exp_prefix)
        if not same:
            # order is not part of C09; compare as identity multisets of a prefix-sized subset
            ids = lambda v: tuple(id(p) for p in v) if isinstance(v, tuple) else id(v)
            if not set(map(ids, got)) <= set(map(ids, expected)) or len(set(map(ids, got))) != len(got):
                res.failures.append(Failure("wrong-solutions", f"got {got} expected prefix of {expected}"))
    return res


def run_construct(case, res):
    from krrood.entity_query_language import failures as F
    from krrood.entity_query_language.result_quantification_constraint import Exactly, AtLeast, AtMost, Range
    kind = case[1]
    res.transitions = 1
    res.states = [case]
    try:
        if kind == "range":
            a, b = case[2], case[3]
            Range(AtLeast(a), AtMost(b))
            bad = a < 0 or b < 0 or a > b
        else:
            {"exactly": Exactly, "atleast": AtLeast, "atmost": AtMost}[kind](case[2])
            bad = case[2] < 0
        outcome = "accepted"
    except F.NegativeQuantificationError:
        outcome = "negative"
    except F.QuantificationConsistencyError:
        outcome = "inconsistent"
    except Exception as e:
        outcome = "other:" + type(e).__name__
    if kind == "range":
        a, b = case[2], case[3]
        exp = "negative" if (a < 0 or b < 0) else ("inconsistent" if a > b else "accepted")
    else:
        exp = "negative" if case[2] < 0 else "accepted"
    res.outcome_key = ("construct", outcome)
    res.nontrivial_key = case
    res.features = ["construct:" + outcome]
    if outcome != exp:
        res.failures.append(Failure("construction", f"{case}: {outcome}, expected {exp}"))
    return res


def finish(run):
    from mc.core import HarnessError
    need = ["end:stop", "end:raise:GreaterThanExpectedNumberOfSolutions",
            "end:raise:LessThanExpectedNumberOfSolutions", "end:return", "end:raise:NoSolutionFound",
            "end:raise:MultipleSolutionFound", "construct:negative", "construct:inconsistent"]
    if not run.failures and run.exhaustive:
        for k in need:
            if not run.features.get(k):
                raise HarnessError(f"vacuous: outcome {k} never observed")


def repro(case):
    return f"""# C09 replay
import sys; sys.path.insert(0, '/verif')
from checks import c09
case = {case!r}
print(c09.run_case(case).failures)
"""


# ---- in-process mutants (harness self-test) -------------------------------------------------
def _m_exactly_ge():
    from krrood.entity_query_language import result_quantification_constraint as R
    from krrood.entity_query_language.failures import GreaterThanExpectedNumberOfSolutions, LessThanExpectedNumberOfSolutions
    def assert_satisfaction(self, n, q, done):
        if n >= self.value and self.value > 0 and n > 1:
            raise GreaterThanExpectedNumberOfSolutions(q, self.value)
        elif done and n < self.value:
            raise LessThanExpectedNumberOfSolutions(q, self.value, n)
    R.Exactly.assert_satisfaction = assert_satisfaction


def _m_skip_final_when_zero():
    from krrood.entity_query_language import symbolic as S
    orig = S.ResultQuantifier._assert_satisfaction_of_quantification_constraints_
    def patched(self, result_count, done):
        if done and result_count == 0:
            return
        return orig(self, result_count, done)
    S.ResultQuantifier._assert_satisfaction_of_quantification_constraints_ = patched


def _m_atmost_late():
    from krrood.entity_query_language import result_quantification_constraint as R
    from krrood.entity_query_language.failures import GreaterThanExpectedNumberOfSolutions
    def assert_satisfaction(self, n, q, done):
        if done and n > self.value:
            raise GreaterThanExpectedNumberOfSolutions(q, self.value)
    R.AtMost.assert_satisfaction = assert_satisfaction


def _m_range_equal():
    from krrood.entity_query_language import result_quantification_constraint as R
    from krrood.entity_query_language.failures import QuantificationConsistencyError
    def post(self):
        if self.at_most.value <= self.at_least.value and self.at_most.value > 2:
            raise QuantificationConsistencyError(message="x")
    R.Range.__post_init__ = post


MUTANTS = {"exactly_ge": _m_exactly_ge, "skip_final_when_zero": _m_skip_final_when_zero,
           "atmost_late": _m_atmost_late, "range_equal": _m_range_equal}


def apply_mutant(name):
    MUTANTS[name]()
