"""
Object-graph specifications over the curated ORM model (models/ormmodel.py), their enumeration, and the builder.

A spec is a tuple of nodes: (node name, class name, ((field, value), ...)) where value is a scalar, ("ref", node|None),
("list", (nodes...)), ("money", n) or ("type", class name).  Picklable and printable; objects are built fresh per case.
"""
from __future__ import annotations

import itertools
from datetime import datetime


def build(spec):
    from models import ormmodel as M
    objs = {}
    for name, cls, fields in spec:
        objs[name] = getattr(M, cls)()
    for name, cls, fields in spec:
        o = objs[name]
        for f, v in fields:
            if isinstance(v, tuple) and v and v[0] == "ref":
                setattr(o, f, objs[v[1]] if v[1] is not None else None)
            elif isinstance(v, tuple) and v and v[0] == "list":
                setattr(o, f, [objs[n] for n in v[1]])
            elif isinstance(v, tuple) and v and v[0] == "set":
                setattr(o, f, {objs[n] for n in v[1]})
            elif isinstance(v, tuple) and v and v[0] == "money":
                setattr(o, f, M.OMoney(v[1]))
            elif isinstance(v, tuple) and v and v[0] == "type":
                setattr(o, f, getattr(M, v[1]))
            elif isinstance(v, tuple) and v and v[0] == "enum":
                setattr(o, f, M.OKind[v[1]])
            elif isinstance(v, tuple) and v and v[0] == "dt":
                setattr(o, f, datetime(*v[1]))
            elif isinstance(v, tuple) and v and v[0] == "strs":
                setattr(o, f, list(v[1]))
            elif isinstance(v, tuple) and v and v[0] == "coords":
                setattr(o, f, [tuple(c) for c in v[1]])
            else:
                setattr(o, f, v)
    return objs


def item(name, sub, k):
    fields = [("n", k), ("s", None if k % 2 else f"s{k}"), ("kind", ("enum", "B" if k % 2 else "A")),
              ("tags", ("strs", ("t",) * (k % 3))), ("when", ("dt", (2020, 1, 1 + k))),
              ("price", ("money", 10 + k) if k % 2 == 0 else None)]
    if sub:
        fields.append(("f", 0.5 + k))
    return (name, "OSubItem" if sub else "OItem", tuple(fields))


def holder(name, sub, one, many, back, peers, vec=None):
    fields = [("name", name), ("one", ("ref", one)), ("many", ("list", tuple(many))), ("back", ("ref", back)),
              ("peers", ("list", tuple(peers))), ("vec", ("ref", vec))]
    if sub:
        fields.append(("extra", 7))
    return (name, "OSubHolder" if sub else "OHolder", tuple(fields))


def family_items_holders(tier, no_repeats=False):
    """2 items x 2 holders: every wiring of one / many / back / peers (self loops, 2-cycles, sharing)"""
    items = ["i0", "i1"]
    holders = ["h0", "h1"]
    manys = [(), ("i0",), ("i0", "i1"), ("i1", "i0")] + ([] if no_repeats else [("i1", "i1")])
    peers_opts = [(), ("h0",), ("h1",), ("h0", "h1")] + ([("h1", "h0")] if tier == "thorough" else [])
    per_holder = list(itertools.product([None] + items, manys, [None] + holders, peers_opts))
    out = []
    n = 0
    for subs in ((False, False, False, False), (False, True, False, True), (True, False, True, False),
                 (False, False, False, False, "twin")):
        for w0 in per_holder:
            for w1 in per_holder:
                n += 1
                if tier == "quick" and n % 5 != 0 and not (w0[2] or w1[2]):
                    # quick tier: all wirings that contain a back reference, a fifth of the purely forward ones
                    continue
                twin = len(subs) > 4  # i1 is a value-equal twin of i0, h1 of h0 (apart from their wiring)
                spec = (item("i0", subs[0], 0), item("i1", subs[1], 0 if twin else 1),
                        holder("h0", subs[2], *w0), holder("h0" if False else "h1", subs[3], *w1))
                if twin and n % 3:
                    continue
                out.append(spec)
    return out


def family_vec_carrier(tier, no_repeats=False):
    """alternatively mapped Vec in single fields, collections and cycles; carrier with a Type-valued field"""
    out = []
    vecs_opts = [(), ("v0",)] + ([] if no_repeats else [("v0", "v0")])
    for owner in (None, "h0", "h1"):
        for hv0, hv1 in itertools.product((None, "v0"), repeat=2):
            for back0 in (None, "h1", "h0"):
                for cvec in (None, "v0"):
                    for cvecs in vecs_opts:
                        for cowner in (None, "h0", "h1"):
                            for ctype in ("OItem", "OSubItem"):
                                spec = (item("i0", False, 2),
                                        holder("h0", False, "i0", ("i0",), back0, ("h1",), hv0),
                                        holder("h1", True, None, (), "h0", (), hv1),
                                        ("v0", "OVec", (("x", 1.5), ("y", -2.0), ("owner", ("ref", owner)))),
                                        ("c0", "OCarrier", (("vec", ("ref", cvec)), ("vecs", ("list", cvecs)),
                                                            ("owner", ("ref", cowner)), ("item_type", ("type", ctype)))))
                                out.append(spec)
    return out


def family_alt_parent(tier, no_repeats=False):
    out = []
    lists = [(), ("i0",), ("i0", "i1")] + ([] if no_repeats else [("i1", "i1")])
    for cls in ("OAltParent", "OAltChild", "OAltGrand"):
        for its in lists:
            for fav in (None, "i0", "i1"):
                fields = [("base", 1.5), ("items", ("list", its))]
                if cls in ("OAltChild", "OAltGrand"):
                    fields += [("level", 2.5), ("favourite", ("ref", fav))]
                    if cls == "OAltGrand":
                        fields += [("extra", 9)]
                elif fav is not None:
                    continue
                out.append((item("i0", False, 0), item("i1", True, 3), ("p0", cls, tuple(fields))))
    return out


def family_drawing(tier, no_repeats=False):
    """several alternatively mapped objects whose mapping builds fresh mapped objects during the conversion"""
    out = []
    for nlines in (1, 2, 3, 4):
        for npts in (0, 1, 2, 3):
            for best in (None, "l0"):
                nodes = []
                for i in range(nlines):
                    coords = tuple((100.0 * i + j, -(100.0 * i + j)) for j in range(npts))
                    nodes.append((f"l{i}", "OPoly", (("name", f"line{i}"), ("coords", ("coords", coords)))))
                lines = tuple(f"l{i}" for i in range(nlines))
                nodes.append(("d0", "ODrawing", (("title", "d"), ("lines", ("list", lines)), ("best", ("ref", best)))))
                out.append(tuple(nodes))
    return out


def family_alt_group(tier, no_repeats=False):
    """several objects of an alternatively mapped hierarchy (parent mapped alternatively, child normally) converted in
    one state: each child's inherited part is rebuilt through a temporary parent DAO"""
    out = []
    names = ("a0", "a1", "a2")
    kid_lists = [p for n in range(0, 4) for p in itertools.permutations(names, n)]
    if not no_repeats:
        kid_lists += [("a0", "a0"), ("a1", "a0", "a1")]
    for kids in kid_lists:
        for first in (None, "a0", "a2"):
            if tier == "quick" and len(kids) == 3 and first == "a2":
                continue
            nodes = [item("i0", False, 0), item("i1", True, 3)]
            nodes.append(("a0", "OAltChild", (("base", 1.5), ("items", ("list", ("i0",))), ("level", 10.5), ("favourite", ("ref", "i0")))))
            nodes.append(("a1", "OAltGrand", (("base", 2.5), ("items", ("list", ("i1", "i0"))), ("level", 20.5), ("favourite", ("ref", None)), ("extra", 5))))
            nodes.append(("a2", "OAltParent", (("base", 3.5), ("items", ("list", ())))))
            nodes.append(("g0", "OAltGroup", (("kids", ("list", kids)), ("first", ("ref", first)))))
            out.append(tuple(nodes))
    return out


def family_teams(tier, no_repeats=False):
    """many-to-many in both directions between an alternatively mapped class and a normally mapped one: collections
    that hold an alternatively mapped object which is still being converted, at every position"""
    out = []
    orders = lambda a, b: [(), (a,), (b,), (a, b), (b, a)]
    for tm0, tm1 in itertools.product(orders("m0", "m1"), repeat=2):
        for mt0, mt1 in itertools.product(orders("t0", "t1"), repeat=2):
            out.append((("t0", "OTeam", (("name", "red"), ("members", ("list", tm0)), ("rival", ("ref", None)))),
                        ("t1", "OTeam", (("name", "blue"), ("members", ("list", tm1)), ("rival", ("ref", None)))),
                        ("m0", "OMember", (("name", "alice"), ("teams", ("list", mt0)))),
                        ("m1", "OMember", (("name", "bob"), ("teams", ("list", mt1))))))
    # references between alternatively mapped objects: chains, a self loop, a 2-cycle made only of alternatively mapped objects
    for r0, r1 in ((None, "t0"), ("t1", None), ("t0", None), ("t1", "t0"), ("t1", "t1")):
        for tm0 in ((), ("m0",)):
            for mt0 in ((), ("t0",), ("t1", "t0")):
                out.append((("t0", "OTeam", (("name", "red"), ("members", ("list", tm0)), ("rival", ("ref", r0)))),
                            ("t1", "OTeam", (("name", "blue"), ("members", ("list", ())), ("rival", ("ref", r1)))),
                            ("m0", "OMember", (("name", "alice"), ("teams", ("list", mt0)))),
                            ("m1", "OMember", (("name", "bob"), ("teams", ("list", ()))))))
    return out


def family_bags(tier, no_repeats=False):
    """a Set-typed collection of mapped objects, shared with a holder's list"""
    out = []
    for things in ((), ("i0",), ("i0", "i1")):
        for many in ((), ("i1",), ("i0", "i1")):
            out.append((item("i0", False, 0), item("i1", True, 3),
                        holder("h0", False, "i0" if things else None, many, None, ()),
                        ("b0", "OBag", (("label", "bag"), ("things", ("set", things))))))
    return out


def all_specs(tier, no_repeats=False):
    return (family_items_holders(tier, no_repeats) + family_vec_carrier(tier, no_repeats)
            + family_alt_parent(tier, no_repeats) + family_drawing(tier, no_repeats) + family_teams(tier, no_repeats) + family_alt_group(tier, no_repeats)
            + family_bags(tier, no_repeats))


def show(spec):
    out = []
    for name, cls, fields in spec:
        rel = [f"{f}={v[1]}" for f, v in fields if isinstance(v, tuple) and v and v[0] in ("ref", "list", "set")]
        out.append(f"{name}:{cls}({', '.join(rel)})")
    return "; ".join(out)
