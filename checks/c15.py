"""
C15 - property-descriptor inference reaches the full closure in any assertion order.

E2: all ordered sequences of <= k distinct assertions from a fact universe over 4 companies, 2 persons, 1 CEO,
each executed on the real descriptors from a fresh SymbolGraph; after EVERY assertion the graph relations and every
managed field are compared with the reference closure (oracles/closure.py).
"""
from __future__ import annotations

import gc
import itertools
import weakref

from mc.core import CaseResult, Failure, HarnessError

PROPERTY = "C15"
LEVEL = "model_checking"
RULE = ("all ordered sequences of <=k distinct assertions (single-valued assignment, container assignment, append/add) "
        "over the transitive universe (12 sub-organisation facts on 4 companies: every chain, diamond and cycle in "
        "every insertion order), over one transitive descriptor attached to two classes (regions / cities) "
        "and over the mixed universe (works_for / member_of / members / head_of / sub); "
        "state = (set of graph relations, field contents); after every step the implementation is compared with the "
        "reference fix-point closure. non-trivial = sequences whose closure strictly contains the asserted facts")
ASSUMPTIONS = ["histories whose closure gives a single-valued field two different values are outside the statement "
               "(no defined field value); they are removed by the generator using the reference closure and counted",
               "list-valued fields are compared as sets (a user may append what was inferred before)"]
BOUNDS = {"quick": {"transitive_seq_len": 4, "mixed_seq_len": 3, "unit_seq_len": 3, "geo_seq_len": 3},
          "thorough": {"transitive_seq_len": 5, "mixed_seq_len": 4, "unit_seq_len": 4, "geo_seq_len": 4}}
CHUNK = 150
RECYCLE_CHUNKS = 10
BUDGET_S = {"quick": 900, "thorough": 6000}

NC, NP = 4, 2


def transitive_universe():
    return [("sub", i, j, "append") for i in range(NC) for j in range(NC) if i != j]


def mixed_universe():
    u = []
    for p in range(NP):
        for c in range(2):
            u.append(("works", p, c, "assign"))
            u.append(("memberof", p, c, "append"))
            u.append(("members", c, p, "add"))
    u += [("memberof", 0, 1, "assign"), ("members", 0, 1, "assign"), ("members", 1, "ceo", "add")]
    u += [("head", 0, c, "assign") for c in range(2)]
    u += [("sub", 0, 1, "append"), ("sub", 1, 2, "append"), ("sub", 1, 0, "assign"), ("sub", 2, 0, "append")]
    return u


NU = 3


def unit_universe():
    u = []
    for f in ("part_of", "has_part", "directly_part_of"):
        for i in range(NU):
            for j in range(NU):
                if i != j:
                    u.append(("unit", i, j, "append", f))
    u += [("unit", 0, 1, "assign", "part_of"), ("unit", 1, 2, "assign", "has_part"), ("unit", 2, 0, "assign", "directly_part_of")]
    return u


def worker_universe():
    u = []
    for w in ("w0", "k0", "k1"):
        for o in (0, 1):
            u.append(("worker", w, o, "assign", "employer"))
    for k in ("k0", "k1"):
        for o in (0, 1):
            u.append(("worker", k, o, "append", "affiliations"))
    u.append(("worker", "k0", 0, "assign", "affiliations"))
    return u


NR = 3


def geo_universe():
    """one transitive descriptor class on two domain classes: regions within regions, a city located in regions"""
    u = [("geo", "r%d" % i, j, "append", "within") for i in range(NR) for j in range(NR) if i != j]
    u += [("geo", "m0", j, "append", "located_in") for j in range(NR)]
    u += [("geo", "m1", 0, "append", "located_in"), ("geo", "m0", 1, "assign", "located_in"), ("geo", "r0", 1, "assign", "within")]
    return u


def cases(tier, seed):
    b = BOUNDS[tier]
    out = [("seq", ())]
    gu = geo_universe()
    for k in range(1, b["geo_seq_len"] + 1):
        for s in itertools.permutations(gu, k):
            out.append(("seq", s))
    wu = worker_universe()
    for k in range(1, 4):
        for s in itertools.permutations(wu, k):
            out.append(("seq", s))
    uu = unit_universe()
    for k in range(1, b["unit_seq_len"] + 1):
        for s in itertools.permutations(uu, k):
            out.append(("seq", s))
    tu = transitive_universe()
    for k in range(1, b["transitive_seq_len"] + 1):
        for s in itertools.permutations(tu, k):
            out.append(("seq", s))
    mu = mixed_universe()
    for k in range(1, b["mixed_seq_len"] + 1):
        for s in itertools.permutations(mu, k):
            out.append(("seq", s))
    return out


_ONTO = None


def init_worker():
    global _ONTO
    from models import onto
    _ONTO = onto


class World:
    def __init__(self):
        O = _ONTO
        O.reset_graph()
        self.c = [O.VCompany(f"c{i}") for i in range(NC)]
        self.p = [O.VPerson(f"p{i}") for i in range(NP)]
        self.ceo = O.VCEO(self.p[0])
        self.u = [O.VUnit(f"u{i}") for i in range(NU)]
        self.orgs = [O.VOrg("o0"), O.VOrg("o1")]
        self.workers = {"w0": O.VWorker("w0"), "k0": O.VContractor("k0"), "k1": O.VContractor("k1")}
        self.geo = {"r%d" % i: O.VRegion("r%d" % i) for i in range(NR)}
        self.geo.update(m0=O.VCity("m0"), m1=O.VCity("m1"))
        self.objs = self.c + self.p + [self.ceo] + self.u + self.orgs + list(self.workers.values()) + list(self.geo.values())
        self.name = {id(o): repr(o) for o in self.objs}

    def person(self, p):
        return self.ceo if p == "ceo" else self.p[p]

    def fact(self, a):
        """the asserted fact (s, field, t) of an assertion"""
        kind = a[0]
        if kind == "unit":
            return (self.u[a[1]], a[4], self.u[a[2]])
        if kind == "geo":
            return (self.geo[a[1]], a[4], self.geo["r%d" % a[2]])
        if kind == "worker":
            return (self.workers[a[1]], a[4], self.orgs[a[2]])
        if kind == "sub":
            return (self.c[a[1]], "sub_organization_of", self.c[a[2]])
        if kind == "works":
            return (self.p[a[1]], "works_for", self.c[a[2]])
        if kind == "memberof":
            return (self.p[a[1]], "member_of", self.c[a[2]])
        if kind == "members":
            return (self.c[a[1]], "members", self.person(a[2]))
        if kind == "head":
            return (self.ceo, "head_of", self.c[a[2]])
        raise ValueError(a)

    def apply(self, a):
        s, f, t = self.fact(a)
        form = a[3]
        if form == "assign":
            if f in ("works_for", "head_of", "employer"):
                setattr(s, f, t)
            elif f == "members":
                setattr(s, f, {t})
            else:
                setattr(s, f, [t])
        elif form == "append":
            getattr(s, f).append(t)
        elif form == "add":
            getattr(s, f).add(t)
        else:
            raise ValueError(a)

    def graph_facts(self):
        from krrood.entity_query_language.symbol_graph import SymbolGraph
        out = set()
        for r in SymbolGraph().relations():
            out.add((id(r.source.instance), r.wrapped_field.public_name, id(r.target.instance)))
        return out

    def field_facts(self):
        out = set()
        dup = []
        for o in self.objs:
            for (cls, f), (d, single) in _ONTO.FIELDS.items():
                if isinstance(o, cls):
                    v = getattr(o, f)
                    if single:
                        if v is not None:
                            out.add((id(o), f, id(v)))
                    else:
                        for e in list(v):
                            if isinstance(e, weakref.ref):
                                e = e()
                            if e is not None:
                                out.add((id(o), f, id(e)))
        return out

    def show(self, facts):
        return sorted((self.name.get(s, s), f, self.name.get(t, t)) for s, f, t in facts)


def single_valued_conflict(facts, world):
    seen = {}
    for s, f, t in facts:
        if f in ("works_for", "head_of", "employer"):
            if seen.setdefault((s, f), t) != t:
                return True
    return False


def reference(world, asserted):
    from oracles.closure import closure
    O = _ONTO
    from krrood.ontomatic.property_descriptor.mixins import HasInverseProperty, TransitiveProperty
    facts, _ = closure(asserted, O.FIELDS, O.ROLE_TAKER_FIELD, TransitiveProperty, HasInverseProperty)
    return facts


def admissible(world, seq):
    """container assignment only on an empty field; single-valued asserted at most once; no single-valued conflict"""
    asserted = []
    for a in seq:
        s, f, t = world.fact(a)
        if a[3] == "assign":
            if any(id(x) == id(s) and ff == f for x, ff, _ in asserted):
                return False
            ref = reference(world, asserted)
            if any(ss == id(s) and ff == f for ss, ff, _ in ref):
                return False
        asserted.append((s, f, t))
        if single_valued_conflict(reference(world, asserted), world):
            return False
    return True


def run_case(case):
    _, seq = case
    res = CaseResult()
    world = World()
    if not admissible(world, seq):
        res.features = ["inadmissible(single-valued conflict or re-assignment)"]
        res.evaluations = 0
        return res
    asserted = []
    states = [()]
    for i, a in enumerate(seq):
        try:
            world.apply(a)
        except Exception as e:
            res.failures.append(Failure("crash", f"step {i} {a} of {seq}: {type(e).__name__}: {e}"))
            return res
        asserted.append(world.fact(a))
        exp = reference(world, asserted)
        g = world.graph_facts()
        fl = world.field_facts()
        states.append(tuple(sorted(world.show(g))))
        res.transitions += 1
        if g != exp:
            res.failures.append(Failure(
                "graph-not-closure", f"after {seq[:i + 1]}: graph lacks {world.show(exp - g)}, has extra {world.show(g - exp)}"))
            break
        if fl != exp:
            res.failures.append(Failure(
                "fields-disagree-with-closure", f"after {seq[:i + 1]}: fields lack {world.show(exp - fl)}, extra {world.show(fl - exp)}"))
            break
    res.states = states
    exp = reference(world, asserted)
    if len(exp) > len(asserted):
        res.nontrivial_key = seq
    res.outcome_key = states[-1]
    kinds = {a[0] + ":" + a[3] + (":" + a[4] if a[0] in ("unit", "worker", "geo") else "") for a in seq}
    res.features = list(kinds) + ["len:%d" % len(seq)]
    if any(s == t for s, f, t in exp):
        res.features.append("closure-has-self-loop(cycle)")
    if not res.failures and len(seq) >= 3 and res.nontrivial_key is not None:
        res.sample = {"assertions": [list(a) for a in seq], "closure": world.show(exp)}
    del world
    return res


def finish(run):
    if run.exhaustive and not run.failures:
        for k in ("closure-has-self-loop(cycle)", "geo:append:located_in", "geo:append:within", "head:assign", "works:assign", "members:add", "memberof:append"):
            if not run.features.get(k):
                raise HarnessError(f"vacuous: {k} never exercised")


def classify(case, failure):
    return None


def repro(case):
    return f"""# C15 replay
import sys; sys.path.insert(0, '/verif')
from checks import c15
c15.init_worker()
for f in c15.run_case({case!r}).failures: print(f.kind, f.detail)
"""


# ---- mutants ---------------------------------------------------------------------------------------
def _m_transitive_outgoing_only():
    from krrood.ontomatic.property_descriptor import property_descriptor_relation as R
    R.PropertyDescriptorRelation.infer_transitive_relations_incoming_to_target = lambda self: None


def _m_no_inverse_for_inferred():
    from krrood.ontomatic.property_descriptor import property_descriptor_relation as R
    orig = R.PropertyDescriptorRelation.infer_inverse_relation
    def patched(self):
        if self.inferred and self.wrapped_field.public_name == "member_of":
            return
        return orig(self)
    R.PropertyDescriptorRelation.infer_inverse_relation = patched


def _m_inferring_flag():
    from krrood.ontomatic.property_descriptor import property_descriptor_relation as R
    orig = R.PropertyDescriptorRelation.add_to_graph
    depth = [0]
    def patched(self):
        if depth[0] >= 3:
            from krrood.entity_query_language.symbol_graph import PredicateClassRelation
            return PredicateClassRelation.add_to_graph(self)
        depth[0] += 1
        try:
            return orig(self)
        finally:
            depth[0] -= 1
    R.PropertyDescriptorRelation.add_to_graph = patched


def _m_transitive_outgoing_uses_next_field():
    # before the C15-F1 fix: the relation inferred from the source carries the field of the next relation
    from krrood.ontomatic.property_descriptor import property_descriptor_relation as R
    def outgoing(self):
        for nxt in self.target_outgoing_relations_with_same_descriptor_type:
            self.__class__(self.source, nxt.target, nxt.wrapped_field, inferred=True).add_to_graph()
    R.PropertyDescriptorRelation.infer_transitive_relations_outgoing_from_source = outgoing


MUTANTS = {"transitive_outgoing_uses_next_field": _m_transitive_outgoing_uses_next_field, "transitive_outgoing_only": _m_transitive_outgoing_only, "no_inverse_for_inferred": _m_no_inverse_for_inferred,
           "inferring_flag": _m_inferring_flag}


def apply_mutant(name):
    MUTANTS[name]()
