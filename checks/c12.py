"""
C12 - predicates and symbolic functions agree between concrete and symbolic calls.

E1: every signature (arity 1-3, 0-2 trailing defaults) x every positional/keyword split (both keyword orders, defaults
omitted or given) x every assignment of {variable, attribute of a variable, second variable, concrete value} to the
arguments, as a Predicate dataclass subclass, a @symbolic_function function and a @symbolic_function method.
"""
from __future__ import annotations

import itertools
from dataclasses import dataclass, field

from mc.core import CaseResult, Failure, HarnessError

PROPERTY = "C12"
LEVEL = "exploration"
RULE = ("all call shapes: form in {Predicate subclass, @symbolic_function function, @symbolic_function method} x "
        "signature (arity 1-3, 0-2 trailing defaults) x number of given arguments x positional prefix length x keyword "
        "order x source of every argument (query variable x, attribute x.a, second variable y, concrete int); the call "
        "log of the harness-defined bodies gives: nothing runs at construction when an argument is symbolic, one "
        "invocation per candidate binding with every parameter bound to the value written in its position, and the "
        "query's answers equal filtering the domain with the concrete call; all-concrete calls run once, immediately; "
        "plus pairs of DIFFERENT callables that share module and qualified name but declare their parameters in another "
        "order or number, used one after the other in both orders; plus bodies returning non-bool values (0/1, None/str, "
        "[]/[1], 0.0/0.5) used as a condition, under not_, and as an operand of == / != with the falsy and the truthy value. "
        "non-trivial = shapes with at least one symbolic and one positional argument")
ASSUMPTIONS = ["a Predicate called with concrete arguments returns the predicate instance, whose call gives the truth value"]
BOUNDS = {"quick": {"arity": 3, "defaults": 2}, "thorough": {"arity": 3, "defaults": 2, "domains": "two orders"}}
CHUNK = 60
RECYCLE_CHUNKS = 10

LOG = []


@dataclass(eq=False)
class PItem:
    name: str
    a: int = 0

    def __repr__(self):
        return self.name


def val(o):
    return o.a if isinstance(o, PItem) else o


def truth(p1, p2=10, p3=20):
    """the common body: a function of ALL parameters in which positions are not interchangeable"""
    return (val(p1) + 3 * val(p2) + 5 * val(p3)) % 4 < 2


NAMESPACE = {}


def define_all():
    if NAMESPACE:
        return NAMESPACE
    from krrood.entity_query_language.predicate import Predicate, symbolic_function
    ns = {"Predicate": Predicate, "symbolic_function": symbolic_function, "dataclass": dataclass, "LOG": LOG,
          "truth": truth}
    exec("""
@symbolic_function
def inner(v):
    # result of a nested symbolic call used as an argument; 0 (falsy) for x0
    return v.a
""", ns)
    defaults = {2: "p2: object = 10", 3: "p3: object = 20"}
    fdefaults = {2: "p2=10", 3: "p3=20"}
    for n in (1, 2, 3):
        for d in range(0, min(2, n - 0) + 1):
            if d > n - 1 and n > 1 and d > 2:
                continue
            if d > n:
                continue
            params = [f"p{i}" for i in range(1, n + 1)]
            with_default = params[n - d:] if d else []
            if "p1" in with_default:
                continue
            fields = "\n".join(f"    {defaults[int(p[1])]}" if p in with_default else f"    {p}: object" for p in params)
            sig = ", ".join(fdefaults[int(p[1])] if p in with_default else p for p in params)
            args = ", ".join(f"{p}={p}" for p in params)
            sargs = ", ".join(f"{p}=self.{p}" for p in params)
            src = f'''
@dataclass(eq=False)
class P{n}{d}(Predicate):
{fields}
    def __call__(self):
        LOG.append(("P{n}{d}", dict({sargs})))
        return truth({sargs})

@symbolic_function
def f{n}{d}({sig}):
    LOG.append(("f{n}{d}", dict({args})))
    return truth({args})

class H{n}{d}:
    def __init__(self, tag):
        self.tag = tag
    @symbolic_function
    def m(self, {sig}):
        LOG.append(("m{n}{d}", dict({args}), self.tag))
        return truth({args})
'''
            exec(src, ns)
    # keyword-only parameters: for a dataclass Predicate the keyword-only field is declared BETWEEN the positional ones,
    # so declaration order and positional order differ (positional: p1, p3; keyword-only: p2)
    ns["field"] = field
    exec("""
@dataclass(eq=False)
class PK(Predicate):
    p1: object
    p2: object = field(default=10, kw_only=True)
    p3: object = 20
    def __call__(self):
        LOG.append(("PK", dict(p1=self.p1, p2=self.p2, p3=self.p3)))
        return truth(p1=self.p1, p2=self.p2, p3=self.p3)

@symbolic_function
def fK(p1, p3=20, *, p2=10):
    LOG.append(("fK", dict(p1=p1, p2=p2, p3=p3)))
    return truth(p1=p1, p2=p2, p3=p3)

class HK:
    def __init__(self, tag):
        self.tag = tag
    @symbolic_function
    def m(self, p1, p3=20, *, p2=10):
        LOG.append(("mK", dict(p1=p1, p2=p2, p3=p3), self.tag))
        return truth(p1=p1, p2=p2, p3=p3)
""", ns)
    NAMESPACE.update(ns)
    return NAMESPACE


SOURCES = ["x", "x.a", "y", "conc", "inner(x)"]


def shapes():
    out = []
    for n in (1, 2, 3):
        for d in range(0, 3):
            if d > n - 1:
                continue
            for given in range(n - d, n + 1):
                for k in range(0, given + 1):  # positional prefix
                    for korder in (("fwd", "rev") if given - k >= 2 else ("fwd",)):
                        for srcs in itertools.product(SOURCES, repeat=given):
                            out.append((n, d, given, k, korder, srcs))
    return out


def cases(tier, seed):
    out = []
    for form in ("pred", "func", "meth"):
        for s in shapes():
            out.append((form,) + s)
    # keyword-only parameters (positional order p1, p3; p2 keyword-only): every valid call shape
    for form in ("pred", "func", "meth"):
        for k in (0, 1, 2):
            rest = [nm for nm in ("p1", "p3") [k:]] + ["p2"]
            for r in range(0, len(rest) + 1):
                for kws in itertools.combinations(rest, r):
                    if k == 0 and "p1" not in kws:
                        continue
                    for korder in (("fwd", "rev") if len(kws) >= 2 else ("fwd",)):
                        for srcs in itertools.product(("x", "x.a", "y", "conc"), repeat=k + len(kws)):
                            out.append((form, "K", ("p1", "p3")[:k] + kws, len(kws), k, korder, srcs))
    # results that are not bools: a body returning 0/1, None/"yes", []/[1] - used as a condition, under not_, and as an
    # operand of a comparison with its falsy and with its truthy value
    for form in ("func", "pred"):
        for kind in RESULT_KINDS:
            for use in ("cond", "not", "eq_falsy", "eq_truthy", "ne_falsy"):
                for k in (0, 1, 2):
                    for srcs in itertools.product(("x", "x.a", "y", "conc"), repeat=2):
                        if all(s_ == "conc" for s_ in srcs):
                            continue
                        out.append(("result_kind", form, kind, use, k, srcs))
    # homonyms: two DIFFERENT callables with the same module and qualified name (made by a factory, redefined, ...)
    # whose parameters come in different orders; both are used in one process, in both orders of first use
    for form in ("func", "pred"):
        for orders in ((("p1", "p2"), ("p2", "p1")), (("p1", "p2", "p3"), ("p3", "p1", "p2")), (("p1", "p2"), ("p1", "p2", "p3"))):
            for first in (0, 1):
                for k in (0, 1, 2):
                    for srcs in itertools.product(("x", "x.a", "y", "conc"), repeat=2):
                        if all(s_ == "conc" for s_ in srcs):
                            continue
                        out.append(("homonym", form, orders, first, k, srcs))
    return out


RESULT_KINDS = {"int": (0, 1), "none_or_str": (None, "yes"), "list": ([], [1]), "float": (0.0, 0.5)}
_KIND_NS = {}


def kind_callable(form, kind):
    """a symbolic function / Predicate with parameters (p1, p2) whose body returns a non-bool that is falsy exactly when
    truth(p1, p2) is False"""
    key = (form, kind)
    if key not in _KIND_NS:
        from krrood.entity_query_language.predicate import Predicate, symbolic_function
        falsy, truthy = RESULT_KINDS[kind]
        conv = lambda t: (type(truthy)(truthy) if not isinstance(truthy, list) else list(truthy)) if t else \
            (None if falsy is None else type(falsy)(falsy) if not isinstance(falsy, list) else list(falsy))
        if form == "func":
            @symbolic_function
            def value_of(p1, p2):
                LOG.append(("value_of", dict(p1=p1, p2=p2)))
                return conv(truth(p1, p2))
            _KIND_NS[key] = value_of
        else:
            @dataclass(eq=False)
            class ValueOf(Predicate):
                p1: object
                p2: object

                def __call__(self):
                    LOG.append(("ValueOf", dict(p1=self.p1, p2=self.p2)))
                    return conv(truth(self.p1, self.p2))
            ValueOf.__name__ = ValueOf.__qualname__ = f"ValueOf_{kind}"
            _KIND_NS[key] = ValueOf
    return _KIND_NS[key]


def run_result_kind(case):
    from krrood.entity_query_language.entity import entity, set_of, let, not_
    from krrood.entity_query_language.quantify_entity import an
    from krrood.entity_query_language.symbolic import SymbolicExpression
    _, form, kind, use, k, srcs = case
    res = CaseResult()
    res.features = {"result_kind:" + kind, "use:" + use}
    falsy, truthy = RESULT_KINDS[kind]
    X = [PItem("x0", 0), PItem("x1", 1), PItem("x2", 2), PItem("x3", 3)]
    Y = [PItem("y0", 0), PItem("y1", 1)]
    x = let(PItem, list(X), name="x")
    y = let(PItem, list(Y), name="y")
    sym = {"x": x, "x.a": x.a, "y": y, "conc": 7}
    conc = lambda s_, bx, by: bx if s_ == "x" else bx.a if s_ == "x.a" else by if s_ == "y" else 7
    names = ["p1", "p2"]
    pos = [sym[s_] for s_ in srcs[:k]]
    kw = {names[i]: sym[srcs[i]] for i in range(k, 2)}
    target = kind_callable(form, kind)
    label = (f"{'function' if form == 'func' else 'Predicate'} returning {falsy!r}/{truthy!r}, called as "
             f"({', '.join(srcs[:k])}{', ' if k and kw else ''}{', '.join(f'{a}={srcs[names.index(a)]}' for a in kw)}), used as {use}")
    del LOG[:]
    try:
        r = target(*pos, **kw)
        if not isinstance(r, SymbolicExpression):
            res.failures.append(Failure("ran-at-construction", f"{label}: returned {r!r} instead of an expression"))
            return res
        cond = {"cond": lambda: r, "not": lambda: not_(r), "eq_falsy": lambda: r == falsy, "eq_truthy": lambda: r == truthy,
                "ne_falsy": lambda: r != falsy}[use]()
        uses_y = "y" in srcs
        uses_x = any(s_ in ("x", "x.a") for s_ in srcs)
        if uses_x and uses_y:
            rows = [(row[x], row[y]) for row in an(set_of([x, y], cond)).evaluate()]
        elif uses_y:
            rows = [(None, o) for o in an(entity(y, cond)).evaluate()]
        else:
            rows = [(o, None) for o in an(entity(x, cond)).evaluate()]
    except Exception as e:
        res.failures.append(Failure("crash", f"{label}: {type(e).__name__}: {e}"))
        return res
    cands = [(bx, by) for bx in (X if uses_x else [None]) for by in (Y if uses_y else [None])]
    t = lambda bx, by: truth(conc(srcs[0], bx, by), conc(srcs[1], bx, by))
    want = {"cond": lambda v: v, "not": lambda v: not v, "eq_falsy": lambda v: not v, "eq_truthy": lambda v: v,
            "ne_falsy": lambda v: v}[use]
    exp_rows = [(bx, by) for bx, by in cands if want(t(bx, by))]
    key = lambda rows: sorted((a.name if a else "-", b.name if b else "-") for a, b in rows)
    if key(rows) != key(exp_rows):
        res.failures.append(Failure("wrong-answers", f"{label}: answers {key(rows)}, the concrete calls give {key(exp_rows)}"))
    if k >= 1:
        res.nontrivial_key = case
    res.outcome_key = ("result_kind", tuple(key(rows)))
    return res


def make_homonym(form, order):
    """a fresh callable named `same_name` / `SameName` whose parameters are declared in the given order"""
    from krrood.entity_query_language.predicate import Predicate, symbolic_function
    import sys, types
    sys.modules.setdefault("homonyms", types.ModuleType("homonyms"))
    ns = {"Predicate": Predicate, "symbolic_function": symbolic_function, "dataclass": dataclass, "LOG": LOG, "truth": truth,
          "__name__": "homonyms"}
    args = ", ".join(f"{p}={p}" for p in sorted(order))
    sargs = ", ".join(f"{p}=self.{p}" for p in sorted(order))
    if form == "func":
        exec(f"""
@symbolic_function
def same_name({', '.join(order)}):
    LOG.append(("same_name", dict({args})))
    return truth({args})
""", ns)
        return ns["same_name"]
    fields = "\n".join(f"    {p}: object" for p in order)
    exec(f"""
@dataclass(eq=False)
class SameName(Predicate):
{fields}
    def __call__(self):
        LOG.append(("SameName", dict({sargs})))
        return truth({sargs})
""", ns)
    return ns["SameName"]


def run_homonym(case):
    from krrood.entity_query_language.entity import entity, set_of, let
    from krrood.entity_query_language.quantify_entity import an
    from krrood.entity_query_language.symbolic import SymbolicExpression
    _, form, orders, first, k, srcs = case
    res = CaseResult()
    res.features = {"homonym:" + form}
    X = [PItem("x0", 0), PItem("x1", 1), PItem("x2", 2), PItem("x3", 3)]
    Y = [PItem("y0", 0), PItem("y1", 1)]
    targets = [make_homonym(form, orders[0]), make_homonym(form, orders[1])]
    seq = [first, 1 - first]
    outcome = []
    for which in seq:
        order = orders[which]
        x = let(PItem, list(X), name="x")
        y = let(PItem, list(Y), name="y")
        sym = {"x": x, "x.a": x.a, "y": y, "conc": 7}
        conc = lambda s_, bx, by: bx if s_ == "x" else bx.a if s_ == "x.a" else by if s_ == "y" else 7
        given = list(srcs) + ["conc"] * (len(order) - 2)  # the written arguments, in declaration order
        pos = [sym[s_] for s_ in given[:k]]
        kw = {order[i]: sym[given[i]] for i in range(k, len(order))}
        label = (f"two callables named same_name, declared ({', '.join(orders[0])}) and ({', '.join(orders[1])}); "
                 f"{'second' if which != first else 'first'} used: the one declared ({', '.join(order)}) called as "
                 f"({', '.join(given[:k])}{', ' if k and kw else ''}{', '.join(f'{a}={given[order.index(a)]}' for a in kw)})")

        def expected_params(bx, by):
            return {order[i]: conc(given[i], bx, by) for i in range(len(order))}
        del LOG[:]
        try:
            r = targets[which](*pos, **kw)
            if not isinstance(r, SymbolicExpression):
                res.failures.append(Failure("ran-at-construction", f"{label}: returned {r!r} instead of a condition"))
                return res
            uses_y = "y" in srcs
            uses_x = any(s_ in ("x", "x.a") for s_ in srcs)
            if uses_x and uses_y:
                rows = [(row[x], row[y]) for row in an(set_of([x, y], r)).evaluate()]
            elif uses_y:
                rows = [(None, o) for o in an(entity(y, r)).evaluate()]
            else:
                rows = [(o, None) for o in an(entity(x, r)).evaluate()]
        except Exception as e:
            res.failures.append(Failure("crash", f"{label}: {type(e).__name__}: {e}"))
            return res
        cands = [(bx, by) for bx in (X if uses_x else [None]) for by in (Y if uses_y else [None])]
        exp_rows = [(bx, by) for bx, by in cands if truth(**expected_params(bx, by))]
        key = lambda rows: sorted((a.name if a else "-", b.name if b else "-") for a, b in rows)
        calls = [e[1] for e in LOG]
        exp_calls = [expected_params(bx, by) for bx, by in cands]
        norm = lambda cs: sorted((tuple((k_, getattr(v, "name", v)) for k_, v in sorted(c.items())) for c in cs), key=repr)
        if norm(calls) != norm(exp_calls):
            res.failures.append(Failure("misbound-parameters", f"{label}: body invoked {len(calls)}x with {norm(calls)[:2]}..., "
                                                               f"expected {len(exp_calls)}x with {norm(exp_calls)[:2]}..."))
            return res
        if key(rows) != key(exp_rows):
            res.failures.append(Failure("wrong-answers", f"{label}: answers {key(rows)}, filtering with the concrete call gives {key(exp_rows)}"))
            return res
        outcome.append(tuple(key(rows)))
    if k >= 1:
        res.nontrivial_key = case
    res.outcome_key = ("homonym", tuple(outcome))
    return res


def run_case(case):
    from krrood.entity_query_language.entity import entity, set_of, let
    from krrood.entity_query_language.quantify_entity import an
    from krrood.entity_query_language.symbolic import SymbolicExpression
    if case[0] == "homonym":
        return run_homonym(case)
    if case[0] == "result_kind":
        return run_result_kind(case)
    ns = define_all()
    form, n, d, given, k, korder, srcs = case
    res = CaseResult()
    X = [PItem("x0", 0), PItem("x1", 1), PItem("x2", 2), PItem("x3", 3)]
    Y = [PItem("y0", 0), PItem("y1", 1)]
    x = let(PItem, list(X), name="x")
    y = let(PItem, list(Y), name="y")
    ns_inner = ns["inner"]
    sym = {"x": x, "x.a": x.a, "y": y, "conc": 7}
    if "inner(x)" in srcs:
        sym["inner(x)"] = ns_inner(x)
    conc = lambda s, bx, by: bx if s == "x" else bx.a if s in ("x.a", "inner(x)") else by if s == "y" else 7
    kwonly = n == "K"
    if kwonly:
        names, given, n, d = list(d), len(d), 3, "K"
    else:
        names = [f"p{i}" for i in range(1, given + 1)]
    pos = [sym[s] for s in srcs[:k]]
    kw_items = [(names[i], sym[srcs[i]]) for i in range(k, given)]
    if korder == "rev":
        kw_items = kw_items[::-1]
    kw = dict(kw_items)
    symbolic = any(s != "conc" for s in srcs)
    label = f"{form}{n}{d}({', '.join(srcs[:k])}{', ' if k and kw else ''}{', '.join(f'{a}={srcs[names.index(a)]}' for a, _ in kw_items)})"
    if kwonly:
        holder = ns["HK"]("h") if form == "meth" else None
        target = ns["PK"] if form == "pred" else ns["fK"] if form == "func" else holder.m
        label = "kwonly:" + label
    else:
        holder = ns[f"H{n}{d}"]("h") if form == "meth" else None
        target = ns[f"P{n}{d}"] if form == "pred" else ns[f"f{n}{d}"] if form == "func" else holder.m
    del LOG[:]
    feats = {"form:" + form, "symbolic" if symbolic else "concrete", "positional:%d" % k}
    if kwonly:
        feats.add("kwonly:" + form)

    def expected_params(bx, by):
        p = {names[i]: conc(srcs[i], bx, by) for i in range(given)}
        full = {"p1": None, "p2": 10, "p3": 20}
        full.update(p)
        return {f"p{i}": full[f"p{i}"] for i in range(1, n + 1)}

    try:
        r = target(*pos, **kw)
    except Exception as e:
        res.failures.append(Failure("crash-at-construction", f"{label}: {type(e).__name__}: {e}"))
        res.features = feats
        return res
    if not symbolic:
        exp = expected_params(None, None)
        if form == "pred":
            if isinstance(r, SymbolicExpression) or type(r).__name__ != ("PK" if kwonly else f"P{n}{d}"):
                res.failures.append(Failure("concrete-not-plain", f"{label}: returned {type(r).__name__}"))
            else:
                got = r()
                if got is not truth(**exp):
                    res.failures.append(Failure("concrete-wrong-value", f"{label}: {got} expected {truth(**exp)}"))
        else:
            if r is not truth(**exp):
                res.failures.append(Failure("concrete-wrong-value", f"{label}: returned {r!r}, expected {truth(**exp)}"))
            if len(LOG) != 1:
                res.failures.append(Failure("concrete-run-count", f"{label}: body ran {len(LOG)} times at the call"))
        if LOG and LOG[-1][1] != exp:
            res.failures.append(Failure("misbound-parameters", f"{label}: body saw {LOG[-1][1]}, written {exp}"))
        res.features = feats
        res.outcome_key = ("concrete", bool(res.failures))
        return res
    # symbolic
    if not isinstance(r, SymbolicExpression):
        res.failures.append(Failure("ran-at-construction", f"{label}: returned {r!r} instead of a condition; body ran "
                                                           f"{len(LOG)} time(s) on {[e[1] for e in LOG][:1]}"))
        res.features = feats
        return res
    if LOG:
        res.failures.append(Failure("ran-at-construction", f"{label}: body ran {len(LOG)} time(s) while the condition was built"))
    uses_y = "y" in srcs
    uses_x = any(s in ("x", "x.a", "inner(x)") for s in srcs)
    try:
        if uses_x and uses_y:
            rows = [(row[x], row[y]) for row in an(set_of([x, y], r)).evaluate()]
        elif uses_y:
            rows = [(None, o) for o in an(entity(y, r)).evaluate()]
        else:
            rows = [(o, None) for o in an(entity(x, r)).evaluate()]
    except Exception as e:
        res.failures.append(Failure("crash-at-evaluation", f"{label}: {type(e).__name__}: {e}"))
        res.features = feats
        return res
    cands = [(bx, by) for bx in (X if uses_x else [None]) for by in (Y if uses_y else [None])]
    exp_rows = [(bx, by) for bx, by in cands if truth(**expected_params(bx, by))]
    key = lambda rows: sorted((a.name if a else "-", b.name if b else "-") for a, b in rows)
    if key(rows) != key(exp_rows):
        res.failures.append(Failure("wrong-answers", f"{label}: answers {key(rows)}, filtering with the concrete call gives {key(exp_rows)}"))
    calls = [e[1] for e in LOG]
    exp_calls = [expected_params(bx, by) for bx, by in cands]
    norm = lambda cs: sorted((tuple((k_, getattr(v, "name", v)) for k_, v in sorted(c.items())) for c in cs), key=repr)
    if norm(calls) != norm(exp_calls):
        kind = "misbound-parameters" if len(calls) == len(exp_calls) else "invocation-count"
        res.failures.append(Failure(kind, f"{label}: body invoked {len(calls)}x with {norm(calls)[:2]}..., expected "
                                          f"{len(exp_calls)}x with {norm(exp_calls)[:2]}..."))
    if form == "meth" and any(e[2] != "h" for e in LOG):
        res.failures.append(Failure("misbound-parameters", f"{label}: method ran on another receiver"))
    if k >= 1:
        res.nontrivial_key = case
    res.features = feats
    res.outcome_key = (tuple(key(rows)), len(calls))
    if not res.failures and k >= 1 and given >= 2:
        res.sample = {"call": label, "answers": key(rows), "invocations": len(calls)}
    return res


def classify(case, failure):
    return None


def cluster_key(case, f):
    return (case[0], "positional>0" if case[4] > 0 else "keyword-only")


def finish(run):
    if run.exhaustive and not run.failures:
        for k in ("form:pred", "form:func", "form:meth", "concrete", "symbolic", "homonym:func", "homonym:pred", "result_kind:none_or_str", "use:eq_falsy",
                  "kwonly:pred", "kwonly:func", "kwonly:meth"):
            if not run.features.get(k):
                raise HarnessError("vacuous: " + k)


def repro(case):
    return f"""# C12 replay
import sys; sys.path.insert(0, '/verif')
from checks import c12
for f in c12.run_case({case!r}).failures: print(f.kind, f.detail)
"""


def _m_start_index_off():
    from krrood.entity_query_language import predicate as P
    def merge(function, args, kwargs, ignore_first=True):
        names = P.get_function_argument_names(function)
        start = 1 if ignore_first else 0
        if len(args) >= 2 and not ignore_first:
            start = 1
        all_kwargs = {name: arg for name, arg in zip(names[start:], args)}
        all_kwargs.update(kwargs)
        return all_kwargs
    P.merge_args_and_kwargs = merge


def _m_keyword_override_lost():
    from krrood.entity_query_language import predicate as P
    def merge(function, args, kwargs, ignore_first=True):
        names = P.get_function_argument_names(function)
        start = 1 if ignore_first else 0
        all_kwargs = dict(kwargs)
        all_kwargs.update({name: arg for name, arg in zip(names[start:], args)})
        if len(kwargs) >= 2:
            first = next(iter(kwargs))
            all_kwargs.pop(first)
        return all_kwargs
    P.merge_args_and_kwargs = merge


def _m_validate_call():
    from krrood.entity_query_language import predicate as P
    from krrood.entity_query_language.symbolic import Variable, _any_of_the_kwargs_is_a_variable
    from krrood.entity_query_language.enums import PredicateType
    from functools import wraps
    def symbolic_function(function):
        @wraps(function)
        def wrapper(*args, **kwargs):
            all_kwargs = P.merge_args_and_kwargs(function, args, kwargs, ignore_first=False)
            if _any_of_the_kwargs_is_a_variable(all_kwargs):
                try:
                    function(**{k: 0 for k in all_kwargs})  # "validate" the call shape once
                except Exception:
                    pass
                return Variable(_name__=function.__name__, _type_=function, _kwargs_=all_kwargs,
                                _predicate_type_=PredicateType.DecoratedMethod)
            return function(*args, **kwargs)
        return wrapper
    P.symbolic_function = symbolic_function
    NAMESPACE.clear()


MUTANTS = {"start_index_off": _m_start_index_off, "keyword_override_lost": _m_keyword_override_lost,
           "validate_call": _m_validate_call}


def apply_mutant(name):
    MUTANTS[name]()
