"""Structural signatures of the recorded C07 findings (open entries of known_findings.json)."""


def _atoms(q):
    if q[0] == "atom":
        return [q[1]]
    if q[0] in ("and", "or"):
        return _atoms(q[1]) + _atoms(q[2])
    return []


def classify(case, failure):
    if case is None:
        return None
    tier, di, sel, q, quant = case
    atoms = _atoms(q)
    ycmp = [a for a in atoms if a[0] == "cmpy"]
    if not ycmp:
        return None
    two_var = [a for a in atoms if a[0] in ("join", "cmp2")]
    # C07-F3: a second variable of the SELECTED variable's table that is only compared with literals
    if failure.kind in ("different-entities", "different-row-multiplicity") and not two_var \
            and all(a[2] == sel for a in ycmp):
        return "C07/second-variable-of-the-selected-table-compared-with-literals-only"
    # C07-F4: an attribute path on the second variable written before the equality join that introduces it
    if failure.kind == "sql-execution-crash" and any(a[0] == "join" for a in two_var) \
            and any(len(a[3]) > 1 for a in ycmp) and "ambiguous column name" in failure.detail:
        first = atoms[0]
        if first[0] == "cmpy":
            return "C07/path-on-second-variable-before-its-join"
    return None
