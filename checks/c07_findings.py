def classify(case, failure):
    return None
