"""Child process of C06's determinism cases: generates the ORM text for the models given on stdin (JSON) and prints the
texts as JSON. Run with a different PYTHONHASHSEED than the parent."""
import json
import sys


def tup(x):
    return tuple(tup(i) for i in x) if isinstance(x, list) else x


def main():
    sys.path.insert(0, sys.argv[1])
    from models import gen
    from checks import ormgen
    out = []
    for model, order in json.load(sys.stdin):
        model = tup(model)
        mod, cls_by_name, src = gen.load(model, prefix="vgen06d")
        names = [c[0] for c in model[1]]
        try:
            text = ormgen.generate_orm_source([cls_by_name[names[i]] for i in order])
        except Exception as e:
            text = f"ERROR {type(e).__name__}: {e}"
        out.append(text.replace(mod.__name__, "MODEL"))
        gen.unload(mod)
    json.dump(out, sys.stdout)


if __name__ == "__main__":
    main()
