"""
C06 - ORMatic produces a valid, complete SQLAlchemy layer for every supported model.

E1 over programs: dataclass models are generated from the documented grammar, imported, pushed through the real
ClassDiagram -> ORMatic -> Jinja pipeline; the generated module is imported, mappers are configured, the schema is
created on an in-memory SQLite engine and every mapper is compared with an independent reading of the dataclass fields.
"""
from __future__ import annotations

import itertools
import os
import subprocess
import sys

from mc.core import CaseResult, Failure, HarnessError
from models import gen
from oracles import annotations as ann
from checks import ormgen
from checks.c17 import forests

PROPERTY = "C06"
LEVEL = "exploration"
RULE = ("all models with <=3 classes from the documented modelling grammar (scalars, Optional scalars, Enum, datetime, lists "
        "of builtins, private fields in rotating scalar blocks incl. a block without any builtin field; relation fields "
        "{X, Optional[X], List[X]} to every class incl. itself, two relation fields per class incl. two collections of one "
        "target), every inheritance forest, both hand-over orders: import of the generated module, configure_mappers(), "
        "create_all(), one DAO per class with the right original class and base chain, a column / relationship (target DAO, "
        "uselist) for every public field, nothing for private fields, nothing extra; generating twice gives identical text. "
        "non-trivial = models with at least one relationship")
ASSUMPTIONS = ["the `black` formatting pass (a subprocess, 0.35 s per model) is replaced by a no-op for the bulk of the models; "
               "a rotating subset runs the unmodified pipeline and compares the Python AST of formatted and unformatted output",
               "SQLite in-memory engine; SQLAlchemy 2.0"]
BOUNDS = {"quick": {"classes": 3, "relation_fields": "<=2 (1-2 classes), <=1 (3 classes)"},
          "thorough": {"classes": 3, "relation_fields": "<=2"}}
CHUNK = 25
RECYCLE_CHUNKS = 6
BUDGET_S = {"quick": 1200, "thorough": 9000}

RELS = ["ref", "opt_ref", "list_ref"]
SCALAR_BLOCKS = [
    (("n", "int", None), ("s", "opt_str", None), ("_hidden", "int", None)),
    (),  # no builtin-typed public field at all
    (("color", "enum", None), ("when", "datetime", None), ("tags", "list_str", None)),
    (("maybe", "opt_enum", None), ("nums", "list_int", None), ("f", "float", None), ("b", "bool", None), ("_p", "str", None)),
    (("o", "opt_int", None),),  # only Optional scalars
    (("seen", "opt_datetime", None), ("status", "opt_ext_enum", None), ("ratio", "opt_float", None)),  # only Optional non-int scalars
    (("state", "ext_enum", None), ("ok", "opt_bool", None)),  # an enum defined in a module without mapped classes
]


def rel_options(names, max_fields, kinds=RELS):
    opts = [()]
    opts += [(("r1", k, t),) for k in kinds for t in names]
    if max_fields >= 2:
        for k1, k2 in (("list_ref", "list_ref"), ("opt_ref", "opt_ref"), ("ref", "list_ref"), ("opt_ref", "list_ref")):
            for t in names:
                opts.append((("r1", k1, t), ("r2", k2, t)))
        if len(names) >= 2:
            for t1, t2 in itertools.permutations(names, 2):
                opts.append((("r1", "list_ref", t1), ("r2", "opt_ref", t2)))
                opts.append((("r1", "list_ref", t1), ("r2", "list_ref", t2)))
    return opts


def cases(tier, seed):
    out = []
    mi = 0
    for ncls in (1, 2, 3):
        names = ["A", "B", "C"][:ncls]
        if ncls == 3 and tier == "quick":
            ropts = rel_options(names, 1, kinds=("opt_ref", "list_ref"))
        else:
            ropts = rel_options(names, 2)
        for parent in forests(names):
            for combo in itertools.product(ropts, repeat=ncls):
                if ncls == 3 and tier == "thorough" and sum(len(c) for c in combo) > 3:
                    continue
                mi += 1
                classes = []
                for i, n in enumerate(names):
                    block = SCALAR_BLOCKS[(mi + i) % len(SCALAR_BLOCKS)]
                    # relation field names are unique per class: a subclass re-declaring an inherited field with another
                    # type is not part of the documented modelling rules
                    rel = tuple((f"{fn}{n.lower()}", k, t) for fn, k, t in combo[i])
                    classes.append((n, parent[n], tuple(block) + rel))
                order = tuple(range(ncls)) if mi % 2 else tuple(reversed(range(ncls)))
                out.append(((mi % 3 == 0, tuple(classes)), order, mi))
                if ncls <= 2:
                    out.append(((mi % 3 == 0, tuple(classes)), tuple(reversed(order)), mi))
    # determinism across processes: batches of models generated again in child processes with other hash seeds
    plain = [c for c in out]
    step = max(1, len(plain) // (48 if tier == "quick" else 400))
    sample = plain[::step]
    for b in range(0, len(sample), 12):
        out.append(("determinism", tuple((c[0], c[1]) for c in sample[b:b + 12])))
    return out


def expected_members(cls, all_classes):
    """own (non-inherited) public fields of cls -> kind"""
    info = ann.read_class(cls)
    inherited = set()
    for b in cls.__mro__[1:]:
        if b in all_classes:
            inherited |= set(ann.read_class(b))
    out = {}
    for fname, i in info.items():
        if fname in inherited:
            continue
        if i["endpoint"] in all_classes:
            out[fname] = ("rel", i["endpoint"], bool(i["container"]))
        elif i["container"]:
            out[fname] = ("json",)
        else:
            out[fname] = ("column",)
    return out


def run_determinism(case):
    """the same models generated in this process and in two child processes with different PYTHONHASHSEED"""
    import json
    res = CaseResult(evaluations=0)
    batch = case[1]
    here = []
    for model, order in batch:
        mod, cls_by_name, src = gen.load(model, prefix="vgen06d")
        names = [c[0] for c in model[1]]
        try:
            text = ormgen.generate_orm_source([cls_by_name[names[i]] for i in order])
        except Exception as e:
            text = f"ERROR {type(e).__name__}: {e}"
        here.append(text.replace(mod.__name__, "MODEL"))
        ormgen.cleanup(None, mod)
    verif = os.path.dirname(os.path.dirname(os.path.abspath(__file__)))
    for hashseed in ("1", "987654"):
        env = dict(os.environ, PYTHONHASHSEED=hashseed)
        p = subprocess.run([sys.executable, os.path.join(verif, "checks", "c06_child.py"), verif], input=json.dumps(batch),
                           capture_output=True, text=True, env=env, timeout=600)
        if p.returncode != 0:
            raise HarnessError(f"determinism child failed: {p.stderr[-500:]}")
        there = json.loads(p.stdout)
        for (model, order), a, b in zip(batch, here, there):
            res.evaluations += 1
            if a != b:
                import difflib
                d = [l for l in difflib.unified_diff(a.splitlines(), b.splitlines(), lineterm="", n=0)][:6]
                res.failures.append(Failure("non-deterministic", f"model {[(c[0], c[1]) for c in model[1]]} order {order}: output "
                                                                 f"differs under PYTHONHASHSEED={hashseed}: {d}"))
    res.features = {"determinism-across-processes"}
    res.nontrivial_key = case
    res.outcome_key = ("determinism", len(batch))
    return res


def run_case(case):
    import sqlalchemy
    from sqlalchemy import inspect as sa_inspect
    from sqlalchemy.orm import configure_mappers
    if case[0] == "determinism":
        return run_determinism(case)
    model, order, mi = case
    res = CaseResult()
    label = f"model {[(c[0], c[1], [f for f in c[2]]) for c in model[1]]} order={order}"
    mod = orm = None
    try:
        try:
            mod, cls_by_name, src = gen.load(model, prefix="vgen06")
        except Exception as e:
            raise HarnessError(f"generated model does not import: {e}")
        names = [c[0] for c in model[1]]
        classes = [cls_by_name[names[i]] for i in order]
        try:
            text = ormgen.generate_orm_source(classes)
        except Exception as e:
            res.failures.append(Failure("generation-crash", f"{label}: {type(e).__name__}: {e}"))
            return res
        try:
            text2 = ormgen.generate_orm_source(classes)
        except Exception as e:
            text2 = None
        if text2 != text:
            res.failures.append(Failure("non-deterministic", f"{label}: generating twice gives different text"))
        # ... and a second ORMatic over the SAME ClassDiagram object (e.g. another inheritance strategy, a re-run)
        try:
            text3 = ormgen.generate_orm_source(classes, diagram=ormgen.LAST_DIAGRAM[0])
        except Exception as e:
            text3 = f"<{type(e).__name__}: {e}>"
        if text3 != text:
            res.failures.append(Failure("non-deterministic", f"{label}: a second ORMatic over the same ClassDiagram generates "
                                                             f"different text ({len(text3)} vs {len(text)} characters)"))
        if mi % 97 == 0:
            # the unmodified pipeline with black, compared on the AST level
            import ast
            try:
                formatted = ormgen.generate_orm_source(classes, with_black=True)
                if ast.dump(ast.parse(formatted)) != ast.dump(ast.parse(text)):
                    res.failures.append(Failure("black-changes-meaning", f"{label}: formatted and unformatted output differ as ASTs"))
                res.features = set(res.features) | {"with-black"}
            except Exception as e:
                res.failures.append(Failure("generation-crash", f"{label} (with black): {type(e).__name__}: {e}"))
        try:
            orm = ormgen.load_orm(text, prefix="vorm06")
        except Exception as e:
            res.failures.append(Failure("import-fails", f"{label}: importing the generated module: {type(e).__name__}: {str(e)[:300]}"))
            return res
        try:
            configure_mappers()
        except Exception as e:
            res.failures.append(Failure("configure-fails", f"{label}: configure_mappers: {type(e).__name__}: {str(e)[:300]}"))
            return res
        try:
            eng = sqlalchemy.create_engine("sqlite:///:memory:")
            orm.Base.metadata.create_all(eng)
            eng.dispose()
        except Exception as e:
            res.failures.append(Failure("create-all-fails", f"{label}: {type(e).__name__}: {str(e)[:300]}"))
            return res
        # one DAO per class
        from krrood.ormatic.dao import DataAccessObject
        daos = {}
        for v in vars(orm).values():
            if isinstance(v, type) and issubclass(v, DataAccessObject) and v is not DataAccessObject and v.__module__ == orm.__name__:
                daos.setdefault(v.original_class(), []).append(v)
        for c in classes:
            if len(daos.get(c, [])) != 1:
                res.failures.append(Failure("dao-count", f"{label}: class {c.__name__} has {len(daos.get(c, []))} DAOs"))
        if any(k not in classes for k in daos):
            res.failures.append(Failure("dao-count", f"{label}: DAOs for foreign classes {[k for k in daos if k not in classes]}"))
        if res.failures:
            return res
        dao_of = {c: daos[c][0] for c in classes}
        nrel = 0
        for c in classes:
            d = dao_of[c]
            # base chain mirrors the dataclass chain
            want_bases = [dao_of[b] for b in c.__mro__[1:] if b in dao_of]
            got_bases = [b for b in d.__mro__[1:] if b in dao_of.values()]
            if want_bases != got_bases:
                res.failures.append(Failure("base-chain", f"{label}: {d.__name__} bases {got_bases}, expected {want_bases}"))
            m = sa_inspect(d)
            exp = expected_members(c, classes)
            own_cols = {a.key for a in m.column_attrs if a.columns[0].table is m.local_table}
            rels = {r.key: r for r in m.relationships if r.parent is m and r.key in vars(d)}
            allowed_extra = {"database_id", "polymorphic_type"} | {f + "_id" for f, k in exp.items() if k[0] == "rel" and not k[2]}
            for fname, kind in exp.items():
                if kind[0] in ("column", "json"):
                    if fname not in own_cols:
                        res.failures.append(Failure("missing-column", f"{label}: {d.__name__} has no column for field {fname}"))
                    elif kind[0] == "json" and "JSON" not in type(m.columns[fname].type).__name__.upper():
                        res.failures.append(Failure("wrong-column-type", f"{label}: {d.__name__}.{fname} is {m.columns[fname].type!r}, expected JSON"))
                else:
                    nrel += 1
                    r = rels.get(fname)
                    if r is None:
                        res.failures.append(Failure("missing-relationship", f"{label}: {d.__name__} has no relationship for field {fname}"))
                    else:
                        if r.mapper.class_ is not dao_of[kind[1]]:
                            res.failures.append(Failure("wrong-relationship-target", f"{label}: {d.__name__}.{fname} targets {r.mapper.class_.__name__}"))
                        if bool(r.uselist) != kind[2]:
                            res.failures.append(Failure("wrong-uselist", f"{label}: {d.__name__}.{fname} uselist={r.uselist}"))
            extra_cols = own_cols - set(exp) - allowed_extra
            extra_rels = set(rels) - set(exp)
            private = [k for k in list(own_cols) + list(rels) if k.startswith("_")]
            if extra_cols or extra_rels or private:
                res.failures.append(Failure("unexpected-member", f"{label}: {d.__name__} has extra columns {sorted(extra_cols)} relationships {sorted(extra_rels)}"))
        if nrel:
            res.nontrivial_key = case[:2]
        res.outcome_key = hash(text)
        res.features = set(res.features) | {"classes:%d" % len(classes)} | {f[1] for c in model[1] for f in c[2]} | \
            ({"self-reference"} if any(f[2] == c[0] for c in model[1] for f in c[2]) else set()) | \
            ({"inheritance"} if any(c[1] for c in model[1]) else set())
        if not res.failures and nrel >= 2:
            res.sample = {"model": label, "generated_lines": text.count("\n")}
        return res
    finally:
        ormgen.cleanup(orm, mod)


def classify(case, failure):
    return None


def cluster_key(case, f):
    return (f.kind, f.detail.split(": ")[-2][:60] if ": " in f.detail else "")


def finish(run):
    if run.exhaustive and not run.failures:
        for k in ("self-reference", "inheritance", "with-black", "list_ref", "classes:3", "determinism-across-processes"):
            if not run.features.get(k):
                raise HarnessError("vacuous: " + k)


def repro(case):
    return f"""# C06 replay
import sys; sys.path.insert(0, '/verif')
from checks import c06
for f in c06.run_case({case!r}).failures: print(f.kind, f.detail)
"""


def _m_assoc_name_without_field():
    from krrood.ormatic import wrapped_table as WT
    orig = WT.WrappedTable.create_one_to_many_relationship
    def patched(self, wrapped_field):
        n0 = len(self.ormatic.association_tables)
        orig(self, wrapped_field)
        t = self.ormatic.association_tables[-1]
        target = self.get_table_of_wrapped_field(wrapped_field)
        new_name = f"{self.tablename.lower()}_{target.tablename.lower()}_association"
        rel = self.relationships[-1]
        rel.constructor = rel.constructor.replace(t.name, new_name)
        t.name = new_name
    WT.WrappedTable.create_one_to_many_relationship = patched


def _m_parent_from_last_base():
    from krrood.ormatic import wrapped_table as WT
    def _find_direct_parent_wrapped(self):
        for parent_class in reversed(self.wrapped_clazz.clazz.__mro__[1:]):
            if parent_class is object:
                continue
            try:
                pw = self.ormatic.class_dependency_graph.get_wrapped_class(parent_class)
            except Exception:
                continue
            if pw is not None and pw in self.ormatic.wrapped_tables:
                return pw
        return None
    WT.WrappedTable._find_direct_parent_wrapped = _find_direct_parent_wrapped


def _m_inherited_by_type():
    from krrood.ormatic import wrapped_table as WT
    from functools import cached_property
    def fields(self):
        inherited_types = set()
        p = self.parent_table
        while p is not None:
            inherited_types.update(repr(f.resolved_type) for f in p.wrapped_clazz.fields)
            p = p.parent_table
        return [f for f in self.wrapped_clazz.fields if repr(f.resolved_type) not in inherited_types]
    cp = cached_property(fields)
    cp.__set_name__(WT.WrappedTable, "fields")
    WT.WrappedTable.fields = cp


MUTANTS = {"assoc_name_without_field": _m_assoc_name_without_field, "parent_from_last_base": _m_parent_from_last_base,
           "inherited_by_type": _m_inherited_by_type}


def apply_mutant(name):
    MUTANTS[name]()
