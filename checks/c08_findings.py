"""Structural signatures of recorded C08 findings."""
from oracles import rdr


def kind_of_branch(block, index):
    """how the branch with the given number is attached: 'root', 'ref', 'alt' or 'next'"""
    found = {}

    def walk(nb, how):
        i, has_c, ref, fol = nb
        found[i] = how
        if ref is not None:
            walk(ref, "ref")
        for kind, fb in fol:
            walk(fb, kind)
    walk(rdr.number(block), "root")
    return found.get(index)


def classify(case, failure):
    if case and case[0] == "style" and failure.kind == "wrong-conclusions":
        style, block = case[1], case[2]
        # C08-F5: a quantifier as the base condition of a rule tree: it yields nothing (instead of a false result) when
        # it does not hold, and its witness is part of the bindings the conclusions are remembered by
        if style == "exists_base":
            return "C08/quantifier-as-base-condition"
        # C08-F6: one condition object used for two branches: both branches' conclusions are attached to the one node
        if style == "shared_1_2":
            return "C08/condition-object-shared-by-two-branches"
        # C08-F7: a next_rule whose condition binds none of the base variables (here: the constant True)
        if style == "last_true" and kind_of_branch(block, rdr.size(block) - 1) == "next":
            return "C08/next-rule-condition-without-base-variables"
    return None
