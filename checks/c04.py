"""
C04 - object -> DAO -> object round trip preserves structure, types and aliasing.

E1 over object graphs of the curated mapped model: every wiring of references / collections / back references / cycles
/ alternatively mapped objects within the bounds, every node as conversion root (and all nodes with one shared
ToDAOState), converted with to_dao and back with from_dao; oracle = identity-aware isomorphism.
"""
from __future__ import annotations

from mc.core import CaseResult, Failure, HarnessError
from mc import idadv
from checks import ormgen, ormgraphs
from oracles import iso

PROPERTY = "C04"
LEVEL = "exploration"
RULE = ("all object graphs of seven families over the curated model (2 items x 2 holders with every one/many/back/peers "
        "wiring incl. self loops, 2-cycles, repeated elements, subclass instances in base-typed fields; alternatively mapped "
        "vector in single fields, collections and cycles with a Type-valued carrier; alternatively mapped parent with a "
        "normally mapped child; several such children in one group; polylines whose mapping allocates mapped points; "
        "many-to-many between an alternatively mapped team and normally mapped members in every order) x every node as "
        "conversion root and all nodes with one shared state x {interpreter id(), identity of every dead object reused at once}; "
        "from_dao(to_dao(x)) must be isomorphic to x (classes, scalars type-exact, collection order, sharing) and one DAO "
        "per distinct object. non-trivial = graphs with sharing or a cycle")
ASSUMPTIONS = ["the curated model reproduces each kind of mapping of the repository's data set; the data set itself contains "
               "classes whose mappings are lossy by design and is not used"]
BOUNDS = {"quick": {"items": 2, "holders": 2, "vecs": 1, "carriers": 1}, "thorough": {"items": 2, "holders": 2, "vecs": 1, "carriers": 1,
                                                                                       "wirings": "all"}}
CHUNK = 150
RECYCLE_CHUNKS = 20
BUDGET_S = {"quick": 900, "thorough": 6000}

_ORM = [None]
_ADV = [None]  # the identity adversary of the conversion that is running (mc/idadv.py), or None


def init_worker():
    from models import ormmodel as M
    from sqlalchemy.orm import configure_mappers
    text = ormgen.generate_orm_source(M.CLASSES, alternative_mappings=M.ALTERNATIVE_MAPPINGS, type_mappings=M.TYPE_MAPPINGS)
    _ORM[0] = ormgen.load_orm(text, prefix="vorm04")
    configure_mappers()
    from sqlalchemy import event

    def on_init(target, args, kwargs):
        if _ADV[0] is not None:
            _ADV[0].born(target)
    event.listen(_ORM[0].Base, "init", on_init, propagate=True)


def cases(tier, seed):
    return ormgraphs.all_specs(tier)


def has_sharing_or_cycle(spec):
    refs = []
    for name, cls, fields in spec:
        for f, v in fields:
            if isinstance(v, tuple) and v and v[0] == "ref" and v[1] is not None:
                refs.append(v[1])
            if isinstance(v, tuple) and v and v[0] == "list":
                refs += list(v[1])
    return len(refs) != len(set(refs))


def run_case(spec):
    res = CaseResult(evaluations=0)
    label = ormgraphs.show(spec)
    objs = ormgraphs.build(spec)
    # environment answers for "which identity does a new object get": the interpreter's own, and the adversary that
    # hands the identity of a dead object to the next object born (mc/idadv.py)
    for ids in ("interpreter", "recycled"):
        if ids == "interpreter":
            _convert_all(spec, label, objs, res, "")
        else:
            _ADV[0] = idadv.IdAdversary(recycle=True)
            try:
                with idadv.installed(_ADV[0]):
                    _convert_all(spec, label, objs, res, " [identities of dead objects are reused at once]")
                if _ADV[0].recycled:
                    res.features = set(res.features) | {"identity-recycled"}
            finally:
                _ADV[0] = None
    if has_sharing_or_cycle(spec):
        res.nontrivial_key = spec
    res.outcome_key = (len(res.failures),)
    res.features = set(res.features) | {n[1] for n in spec}
    if not res.failures and has_sharing_or_cycle(spec):
        res.sample = {"graph": label, "roots": list(objs)}
    return res


def _convert_all(spec, label, objs, res, note):
    from krrood.ormatic.dao import to_dao, ToDAOState, FromDAOState
    for root_name, root in objs.items():
        res.evaluations += 1
        try:
            state = ToDAOState()
            d = to_dao(root, state)
            back = d.from_dao(FromDAOState())
        except Exception as e:
            res.failures.append(Failure("crash", f"{label}; root {root_name}{note}: {type(e).__name__}: {str(e)[:200]}",
                                        case=(spec, root_name)))
            continue
        diff = iso.compare(root, back)
        if diff:
            res.failures.append(Failure("not-isomorphic", f"{label}; converted from {root_name}{note}: {diff}", case=(spec, root_name)))
        n_objs = iso.count_objects(root)
        n_money = sum(1 for _ in _moneys(root))
        # a polyline's mapping builds one mapped point per coordinate pair while converting
        n_points = sum(len(o.coords) for o in _reachable(root) if type(o).__name__ == "OPoly")
        if len(state.memo) != n_objs - n_money + n_points:
            res.failures.append(Failure("dao-count", f"{label}; root {root_name}{note}: {len(state.memo)} DAOs for "
                                                     f"{n_objs - n_money + n_points} distinct mapped objects", case=(spec, root_name)))
        del d, back, state
    # all nodes with one shared state
    try:
        state = ToDAOState()
        daos = [to_dao(o, state) for o in objs.values()]
        fstate = FromDAOState()
        backs = [d.from_dao(fstate) for d in daos]
        diff = iso.compare(list(objs.values()), backs)
        res.evaluations += 1
        if diff:
            res.failures.append(Failure("not-isomorphic", f"{label}; all nodes with one shared state{note}: {diff}", case=(spec, "<all>")))
    except Exception as e:
        res.failures.append(Failure("crash", f"{label}; shared state{note}: {type(e).__name__}: {str(e)[:200]}", case=(spec, "<all>")))


def _reachable(root):
    import dataclasses
    seen = {}

    def rec(x):
        if isinstance(x, (list, tuple, set)):
            for e in x:
                rec(e)
            return
        if isinstance(x, iso.SCALARS) or id(x) in seen:
            return
        seen[id(x)] = x
        if dataclasses.is_dataclass(x):
            for f in dataclasses.fields(x):
                rec(getattr(x, f.name))
    rec(root)
    return list(seen.values())


def _moneys(root):
    from models import ormmodel as M
    seen = set()

    def rec(x):
        import dataclasses
        if isinstance(x, (list, tuple, set)):
            for e in x:
                yield from rec(e)
            return
        if isinstance(x, iso.SCALARS) or id(x) in seen:
            return
        seen.add(id(x))
        if isinstance(x, M.OMoney):
            yield x
            return
        if dataclasses.is_dataclass(x):
            for f in dataclasses.fields(x):
                yield from rec(getattr(x, f.name))
    yield from rec(root)


def classify(case, failure):
    from checks import c04_findings
    return c04_findings.classify(failure.case or (case, None), failure)


def cluster_key(case, f):
    spec, root = f.case
    root_cls = [n[1] for n in spec if n[0] == root]
    return (f.kind, root_cls[0] if root_cls else root, f.detail.split(": ")[-1][:90])


def finish(run):
    if run.exhaustive and not run.failures:
        for k in ("OVec", "OAltChild", "OSubHolder", "OCarrier", "OTeam", "OAltGroup", "identity-recycled"):
            if not run.features.get(k):
                raise HarnessError("vacuous: " + k)


def repro(case):
    return f"""# C04 replay
import sys; sys.path.insert(0, '/verif')
from checks import c04
c04.init_worker()
for f in c04.run_case({case!r}).failures: print(f.kind, f.detail)
"""


def _m_no_register():
    from krrood.ormatic import dao as D
    def register(self, obj, result):
        # registration is skipped for collection members reached a second time
        if type(obj).__name__ == "OSubItem":
            return
        oid = D.__dict__.get("id", id)(obj)
        self.memo[oid] = result
        self.keep_alive[oid] = obj
    D.ToDAOState.register = register


def _m_memo_by_equality():
    from krrood.ormatic import dao as D
    def key(dao_obj):
        return (type(dao_obj).__name__, repr(dao_obj)[:200]) if type(dao_obj).__name__.startswith("OItem") else D.__dict__.get("id", id)(dao_obj)
    D.FromDAOState.has = lambda self, d: key(d) in self.memo
    D.FromDAOState.get = lambda self, d: self.memo[key(d)]
    def allocate_and_memoize(self, dao_obj, original_cls):
        result = original_cls.__new__(original_cls)
        self.memo[key(dao_obj)] = result
        self.memo[D.__dict__.get("id", id)(dao_obj)] = result
        self.in_progress[D.__dict__.get("id", id)(dao_obj)] = True
        return result
    D.FromDAOState.allocate_and_memoize = allocate_and_memoize


def _m_no_pending_fixes():
    from krrood.ormatic import dao as D
    D.FromDAOState.apply_pending_fixes = lambda self: None


def _m_collection_as_set():
    from krrood.ormatic import dao as D
    orig = D.DataAccessObject._extract_collection_relationship
    def patched(self, obj, relationship, state):
        orig(self, obj, relationship, state)
        vals = getattr(self, relationship.key)
        uniq = []
        for v in vals:
            if not any(v is u for u in uniq):
                uniq.append(v)
        setattr(self, relationship.key, uniq)
    D.DataAccessObject._extract_collection_relationship = patched


def _m_temp_parent_dao_freed():
    # the temporary DAO that rebuilds an alternatively mapped parent's part is not kept alive by the state
    from krrood.ormatic import dao as D

    class Forgetful(list):
        def append(self, x):
            pass
    orig = D.FromDAOState.__init__
    def init(self, *a, **k):
        orig(self, *a, **k)
        self.temporary_daos = Forgetful()
    D.FromDAOState.__init__ = init


MUTANTS = {"temp_parent_dao_freed": _m_temp_parent_dao_freed, "no_register": _m_no_register, "memo_by_equality": _m_memo_by_equality, "no_pending_fixes": _m_no_pending_fixes,
           "collection_as_set": _m_collection_as_set}


def apply_mutant(name):
    MUTANTS[name]()
