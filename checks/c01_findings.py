"""Structural signatures of the recorded C01 findings (see known_findings.json). Order = precedence."""
from oracles import fol


def has_exists_after_nnf(c, neg=False):
    """an Exists node remains once negation has been pushed inward (exists at even, for_all at odd polarity)"""
    if c is None:
        return False
    k = c[0]
    if k == "not":
        return has_exists_after_nnf(c[1], not neg)
    if k in ("and", "or"):
        return has_exists_after_nnf(c[1], neg) or has_exists_after_nnf(c[2], neg)
    if k == "exists":
        return (not neg) or has_exists_after_nnf(c[2], neg)
    if k == "forall":
        return neg or has_exists_after_nnf(c[2], neg)
    return False


def classify(case, failure):
    q, dspec = case[:2]
    _, kind, sels, c, decls = q
    subs = list(fol.subconds(c)) if c else []
    # (Python bool constants as conditions were findings C01-F3/F4/F5; repaired, no longer classified)
    if dspec[0] == "sub3" and failure.kind == "unsound-row":
        masks = {"x": dspec[1], "y": dspec[2]}
        if any(d[0] == "dom" and masks.get(d[1], 1) == 0 for d in decls):
            return "C01/empty-domain/unsound-row"
    # the same finding when the variable without values is a quantified one (D5zempty): an exists whose condition can hold
    # without binding the quantified variable (union-form or_) holds although the variable has no value at all
    if dspec[0] == "D5zempty" and failure.kind == "unsound-row" and any(s_[0] == "exists" for s_ in subs):
        return "C01/empty-domain/unsound-row"
    # C01-F19: == / != between two collections compares them as sets
    if failure.kind in ("unsound-row", "missing-row") and any(
            s_[0] == "cmp" and s_[1] in ("eq", "ne") and s_[2][0] == "attr" and s_[2][2] in ("tags", "vals")
            and s_[3][0] == "lit" and isinstance(s_[3][1], tuple) for s_ in subs):
        return "C01/collections-compared-as-sets"
    if failure.kind == "missing-row" and has_exists_after_nnf(c):
        return "C01/exists-dedup/missing-row"
    return None
