"""
C16 - every way of writing a descriptor-managed collection field keeps the data and infers alike.

E2: all sequences of <=k write operations on a list-valued and a set-valued managed field, from every small initial
content, on the real descriptors; after EVERY operation the field must equal what the same operation does to a plain
list/set, and every element now in the field must be in the symbol graph together with all its declared consequences.
"""
from __future__ import annotations

import itertools
import weakref

from mc.core import CaseResult, Failure, HarnessError

PROPERTY = "C16"
LEVEL = "model_checking"
RULE = ("all sequences of <=k operations from the write alphabet (assignment of a new collection incl. duplicates and "
        "one-shot iterables, assignment of the field to itself, += / |=, append, extend, insert, item assignment, add, "
        "update) over a 3-element universe on a list-valued (Person.member_of) and a set-valued (Company.members) "
        "managed field from initial contents of size 0,1,2; state = (field contents, graph facts); reference = plain "
        "list/set under the same operation + reference closure. non-trivial = sequences that change the contents")
ASSUMPTIONS = ["retraction is outside the statement: relations of elements that left the field are not required to "
               "disappear; only presence of the consequences of CURRENT elements is checked",
               "entries may be stored as weak references (inferred ones); they are unwrapped before comparison"]
BOUNDS = {"quick": {"seq_len": 2, "seq_len_core_ops": 3, "inferred_prefix_len": 2, "tlist_seq_len": 2},
          "thorough": {"seq_len": 3, "inferred_prefix_len": 3, "tlist_seq_len": 3}}
CHUNK = 150
RECYCLE_CHUNKS = 10
BUDGET_S = {"quick": 900, "thorough": 6000}

E = (0, 1, 2)

LIST_OPS = ([("assign", v) for v in ((), (0,), (1, 0), (2, 2), (0, 1, 2), (0, 3), (3, 1, 0))]
            + [("assign_gen", (2, 1)), ("assign_tuple", (1, 2)), ("assign_self",), ("assign_copy",)]
            + [("iadd", (e,)) for e in E] + [("iadd", (1, 2)), ("iadd_gen", (2, 0)), ("iadd", (3,))]
            + [("append", e) for e in E] + [("append", 3)]
            + [("extend", (0, 1)), ("extend", (2,)), ("extend", ()), ("extend_gen", (1, 2)), ("extend_tuple", (2, 0)),
               ("extend_self",)]
            + [("insert", 0, e) for e in E] + [("insert_end", 2), ("insert", 1, 1)]
            + [("setitem", 0, e) for e in E] + [("setitem", -1, 2)]
            # the list extended by itself, augmented assignment through an alias, lazily computed values that read the
            # field's own contents, and a falsy element (index 4)
            + [("extend_itself",), ("iadd_alias", (2,)), ("assign_filter_self",), ("assign_reversed_self",),
               ("assign_chain_self", 2), ("append", 4), ("assign", (4, 0)), ("insert", 0, 4)]
            # item assignment with a slice: replacement, pure insertion, the value given as a one-shot iterator, and
            # the list's own contents as the value
            + [("setslice", (0, 1), (1, 2)), ("setslice", (0, 0), (2,)), ("setslice_gen", (0, 1), (2, 0)),
               ("setslice_self", (0, 0))])
SET_OPS = ([("assign", v) for v in ((), (0,), (1, 0), (0, 1, 2))]
           + [("assign_gen", (2, 1)), ("assign_self",), ("assign_copy",)]
           + [("ior", (e,)) for e in E] + [("ior", (1, 2))]
           + [("add", e) for e in E]
           + [("update", (0, 1)), ("update", ()), ("update_gen", (1, 2)), ("update_self",)]
           + [("update_itself",), ("update_two", (0,), (1, 2)), ("update_none",), ("ior_alias", (2,)),
              ("assign_filter_self",), ("assign_chain_self", 2), ("add", 4), ("assign", (4, 0))])
CORE_LIST = [("assign", (1, 0)), ("assign", (0, 3)), ("assign_self",), ("iadd", (2,)), ("iadd", (3,)), ("append", 0), ("append", 2), ("extend", (0, 1)),
             ("extend_gen", (1, 2)), ("insert", 0, 1), ("setitem", 0, 2)]
CORE_SET = [("assign", (1, 0)), ("assign_self",), ("ior", (2,)), ("add", 0), ("add", 2), ("update", (0, 1)),
            ("update_gen", (1, 2))]
INIT = [(), (0,), (0, 1)]
# "inferred" family: the initial contents are INFERRED into the field (asserted through the inverse property on the other
# side); a prefix of operations - including ones that make an entry leave the container - is followed by one final write
# of one element in every equivalent way of writing it; all ways must leave the same contents (differential oracle: the
# statement's "infers alike", no reference value needed for what re-assignment does to inferred entries)
INF_LIST_PREFIX = ([("setitem", 0, e) for e in E] + [("setitem", -1, 2), ("setslice", (0, 1), (1, 2)), ("setslice", (0, 0), (2,)),
                   ("append", 1), ("insert", 0, 1), ("assign", (1,)), ("assign", (1, 0)), ("assign", ()), ("assign_self",),
                   ("iadd", (1,)), ("pop",), ("remove_first",), ("del_first",), ("clear_method",)])
INF_SET_PREFIX = [("add", 1), ("update", (0, 1)), ("assign", (1,)), ("assign", (1, 0)), ("assign", ()), ("assign_self",),
                  ("ior", (1,)), ("discard_first",), ("remove_first",), ("clear_method",)]
# "tlist" family: a list field whose own inferences append to it (transitive sub_organization_of): U = [c0, c1, c2, x0, x1]
# with c2 < c1 < c0 asserted beforehand, so writing c2 infers c1 and c0 into the same list while the write is under way
TLIST_OPS = ([("setitem", 0, e) for e in (0, 1, 2)] + [("setitem", -1, 2), ("setitem", -1, 1), ("setitem", 1, 2)]
             + [("insert", 0, 2), ("insert", 0, 1), ("insert", -1, 2), ("insert", -1, 1), ("insert", 1, 2)]
             + [("setslice", (0, 1), (1, 2)), ("setslice", (1, 3), (2,)), ("setslice", (0, 0), (2,)), ("setslice_gen", (0, 1), (2,))]
             + [("append", 2), ("append", 1), ("append", 3), ("assign", (2,)), ("assign", (4, 1)), ("iadd", (2,)), ("extend", (1,)),
                ("bad_setitem", 7, 2), ("bad_setslice_step", 2)])
TLIST_INIT = [(), (3,), (3, 4), (1,)]
ANCESTORS = {0: (), 1: (0,), 2: (1, 0), 3: (), 4: ()}
FINAL_LIST = ("append", "extend", "iadd", "iadd_alias", "assign_concat", "insert_end", "setslice_end")
FINAL_SET = ("add", "update", "ior", "ior_alias", "assign_union")
ADDITIVE = {"append", "extend", "extend_gen", "extend_tuple", "extend_self", "extend_itself", "insert", "insert_end", "iadd",
            "iadd_gen", "iadd_alias"}


def cases(tier, seed):
    out = []
    b = BOUNDS[tier]
    for field, ops, core in (("list", LIST_OPS, CORE_LIST), ("set", SET_OPS, CORE_SET)):
        for init in INIT:
            for how in ("append", "assign", "ctor", "ctor_shared", "ctor_subproperty"):
                if how != "append" and not init:
                    continue
                if how == "ctor_subproperty" and (field != "list" or init != (0,)):
                    continue
                for k in range(1, b["seq_len"] + 1):
                    for seq in itertools.product(ops, repeat=k):
                        if how == "ctor_subproperty" and not all(op[0] in ADDITIVE for op in seq):
                            # overwriting or re-assigning a field that holds an inferred value is a retraction
                            continue
                        out.append((field, init, how, seq))
                if "seq_len_core_ops" in b and how in ("append", "assign"):
                    k = b["seq_len_core_ops"]
                    for seq in itertools.product(core, repeat=k):
                        out.append((field, init, how, seq))
    for field, prefix_ops in (("list", INF_LIST_PREFIX), ("set", INF_SET_PREFIX)):
        for init in INIT:
            for k in range(0, b["inferred_prefix_len"] + 1):
                for seq in itertools.product(prefix_ops, repeat=k):
                    for e in (2, 0):
                        out.append((field, init, "inferred", seq + (("final", e),)))
    for init in TLIST_INIT:
        for k in range(1, b["tlist_seq_len"] + 1):
            for seq in itertools.product(TLIST_OPS, repeat=k):
                out.append(("tlist", init, "append", seq))
    return list(dict.fromkeys(out))


_ONTO = None


def init_worker():
    global _ONTO
    from models import onto
    _ONTO = onto


def unwrap(v):
    return v() if isinstance(v, weakref.ref) else v


class Hang(Exception):
    pass


class watchdog:
    """an operation that does not return within 5 s is reported instead of hanging the run"""

    def __enter__(self):
        import signal

        def on_alarm(signum, frame):
            raise Hang("the operation did not return within 5 s")
        self.old = signal.signal(signal.SIGALRM, on_alarm)
        signal.alarm(5)

    def __exit__(self, *a):
        import signal
        signal.alarm(0)
        signal.signal(signal.SIGALRM, self.old)
        return False


class World:
    def __init__(self, field, init, how):
        O = _ONTO
        O.reset_graph()
        self.field = field
        if field == "tlist":
            self.owner = O.VCompany("owner")
            self.univ = [O.VCompany(n) for n in ("c0", "c1", "c2", "x0", "x1")]
            self.univ[1].sub_organization_of.append(self.univ[0])
            self.univ[2].sub_organization_of.append(self.univ[1])
            self.fname = "sub_organization_of"
        elif field == "list":
            self.owner = O.VPerson("owner")
            self.univ = [O.VCompany(f"c{i}") for i in E] + [O.VCompany("c0")]  # index 3: twin of c0 (==, same hash)
            self.univ.append(O.VQuietCompany("quiet"))  # index 4: an element whose truth value is False
            self.fname = "member_of"
        else:
            self.owner = O.VCompany("owner")
            self.univ = [O.VPerson(f"p{i}") for i in E] + [O.VPerson("p0")]  # index 3: twin of p0
            self.univ.append(O.VQuietPerson("quiet"))
            self.fname = "members"
        self.other = [O.VCompany("bystander"), O.VPerson("bystander_p")]
        vals = [self.univ[i] for i in init]
        if how == "ctor_subproperty":
            # the constructor sets a SUB-property (works_for), whose super-property field (member_of, the field under
            # test) is declared later in the dataclass: the value is inferred into a field that __init__ has not reached
            self.owner = O.VPerson("owner", works_for=vals[0])
        elif how in ("ctor", "ctor_shared"):
            # the first write of the field happens in the constructor: with a plain collection, or with the managed
            # field of ANOTHER instance (dataclasses.replace(obj, name=...) does exactly that)
            if how == "ctor":
                value = list(vals) if field == "list" else set(vals)
            else:
                self.donor = O.VPerson("donor") if field == "list" else O.VCompany("donor")
                for v in vals:
                    (self.donor.member_of.append if field == "list" else self.donor.members.add)(v)
                value = getattr(self.donor, self.fname)
                self.other.append(self.donor)
            self.owner = (O.VPerson if field == "list" else O.VCompany)("owner", **{self.fname: value})
        elif how == "inferred":
            # asserted on the other side: the inverse property puts the values into the field under test
            for v in vals:
                if field == "list":
                    v.members.add(self.owner)
                else:
                    v.member_of.append(self.owner)
        elif how == "assign":
            setattr(self.owner, self.fname, list(vals) if field == "list" else set(vals))
        else:
            for v in vals:
                if field in ("list", "tlist"):
                    getattr(self.owner, self.fname).append(v)
                else:
                    getattr(self.owner, self.fname).add(v)
        self.model = list(vals) if field in ("list", "tlist") else set(vals)
        self.names = {id(o): repr(o) for o in [self.owner] + self.univ + self.other}
        self.names[id(self.univ[3])] = repr(self.univ[3]) + "'"

    def get(self):
        return getattr(self.owner, self.fname)

    def contents(self):
        return [unwrap(v) for v in list(self.get())]

    def apply(self, op):
        """apply to the real field and to the plain model"""
        U = self.univ
        k = op[0]
        f = self.get
        m = self.model
        o, n = self.owner, self.fname
        vals = [U[i] for i in op[1]] if len(op) > 1 and isinstance(op[1], tuple) else None
        if self.field in ("list", "tlist"):
            if k == "bad_setitem":
                # a write that a list rejects: nothing may change, nothing may be recorded
                try:
                    f()[op[1]] = U[op[2]]
                except IndexError:
                    pass
            elif k == "bad_setslice_step":
                try:
                    f()[::2] = [U[op[1]]] * (len(m) // 2 + 2)
                except ValueError:
                    pass
            elif k == "assign":
                setattr(o, n, list(vals)); self.model = list(vals)
            elif k == "assign_gen":
                setattr(o, n, (v for v in vals)); self.model = list(vals)
            elif k == "assign_tuple":
                setattr(o, n, tuple(vals)); self.model = list(vals)
            elif k == "assign_self":
                setattr(o, n, getattr(o, n))
            elif k == "assign_copy":
                setattr(o, n, list(getattr(o, n)))
            elif k == "iadd":
                x = getattr(o, n); x += list(vals); setattr(o, n, x); m += list(vals)
            elif k == "iadd_gen":
                x = getattr(o, n); x += (v for v in vals); setattr(o, n, x); m += list(vals)
            elif k == "append":
                f().append(U[op[1]]); m.append(U[op[1]])
            elif k == "extend":
                f().extend(list(vals)); m.extend(vals)
            elif k == "extend_gen":
                f().extend(v for v in vals); m.extend(vals)
            elif k == "extend_tuple":
                f().extend(tuple(vals)); m.extend(vals)
            elif k == "extend_self":
                snapshot = list(m)
                f().extend(list(f())); m.extend(snapshot)
            elif k == "extend_itself":
                snapshot = list(m)
                with watchdog():
                    f().extend(f())
                m.extend(snapshot)
            elif k == "iadd_alias":
                alias = f(); alias += list(vals); m += list(vals)
            elif k == "assign_filter_self":
                setattr(o, n, (v for v in getattr(o, n)))
            elif k == "assign_reversed_self":
                setattr(o, n, reversed(getattr(o, n))); self.model = list(reversed(m))
            elif k == "assign_chain_self":
                setattr(o, n, itertools.chain(getattr(o, n), [U[op[1]]])); self.model = list(m) + [U[op[1]]]
            elif k == "insert":
                f().insert(op[1], U[op[2]]); m.insert(op[1], U[op[2]])
            elif k == "insert_end":
                f().insert(len(m), U[op[1]]); m.insert(len(m), U[op[1]])
            elif k == "setitem":
                if not m:
                    return False
                f()[op[1]] = U[op[2]]; m[op[1]] = U[op[2]]
            elif k in ("pop", "remove_first", "del_first"):
                if not len(f()):
                    return False
                if k == "pop":
                    f().pop()
                    if m: m.pop()
                elif k == "remove_first":
                    f().remove(unwrap(list(f())[0]))
                    if m: m.pop(0)
                else:
                    del f()[0]
                    if m: m.pop(0)
            elif k == "clear_method":
                f().clear(); m.clear()
            elif k == "setslice":
                sl = slice(*op[1]); new = [U[i] for i in op[2]]
                f()[sl] = list(new); m[sl] = new
            elif k == "setslice_gen":
                sl = slice(*op[1]); new = [U[i] for i in op[2]]
                f()[sl] = iter(new); m[sl] = new
            elif k == "setslice_self":
                sl = slice(*op[1])
                x = f(); x[sl] = x; m[sl] = list(m)
            else:
                raise ValueError(op)
        else:
            if k == "assign":
                setattr(o, n, set(vals)); self.model = set(vals)
            elif k == "assign_gen":
                setattr(o, n, (v for v in vals)); self.model = set(vals)
            elif k == "assign_list":
                setattr(o, n, list(vals)); self.model = set(vals)
            elif k == "assign_self":
                setattr(o, n, getattr(o, n))
            elif k == "assign_copy":
                setattr(o, n, set(getattr(o, n)))
            elif k == "ior":
                x = getattr(o, n); x |= set(vals); setattr(o, n, x); m |= set(vals)
            elif k == "add":
                f().add(U[op[1]]); m.add(U[op[1]])
            elif k == "update":
                f().update(list(vals)); m.update(vals)
            elif k == "update_gen":
                f().update(v for v in vals); m.update(vals)
            elif k == "update_self":
                f().update(list(f()))
            elif k == "update_itself":
                with watchdog():
                    f().update(f())
            elif k == "update_two":
                f().update([U[i] for i in op[1]], [U[i] for i in op[2]]); m.update(U[i] for i in op[1] + op[2])
            elif k == "update_none":
                f().update()
            elif k == "ior_alias":
                alias = f(); alias |= set(vals); m |= set(vals)
            elif k in ("discard_first", "remove_first"):
                present = sorted((unwrap(v) for v in f()), key=lambda v: (v.name, id(v)))
                if not present:
                    return False
                (f().discard if k == "discard_first" else f().remove)(present[0]); m.discard(present[0])
            elif k == "clear_method":
                f().clear(); m.clear()
            elif k == "assign_filter_self":
                setattr(o, n, (v for v in getattr(o, n)))
            elif k == "assign_chain_self":
                setattr(o, n, itertools.chain(getattr(o, n), [U[op[1]]])); self.model = set(m) | {U[op[1]]}
            else:
                raise ValueError(op)
        return True

    def graph_facts(self):
        from krrood.entity_query_language.symbol_graph import SymbolGraph
        return {(id(r.source.instance), r.wrapped_field.public_name, id(r.target.instance))
                for r in SymbolGraph().relations()}

    def field_facts(self):
        out = set()
        for obj in [self.owner] + self.univ + self.other:
            for (cls, f), (d, single) in _ONTO.FIELDS.items():
                if isinstance(obj, cls):
                    v = getattr(obj, f)
                    if single:
                        if v is not None:
                            out.add((id(obj), f, id(v)))
                    else:
                        for e in list(v):
                            e = unwrap(e)
                            if e is not None:
                                out.add((id(obj), f, id(e)))
        return out

    def show(self, facts):
        return sorted((self.names.get(s, s), f, self.names.get(t, t)) for s, f, t in facts)


def expected_closure(world):
    from oracles.closure import closure
    from krrood.ontomatic.property_descriptor.mixins import HasInverseProperty, TransitiveProperty
    asserted = [(world.owner, world.fname, e) for e in world.model]
    facts, _ = closure(asserted, _ONTO.FIELDS, _ONTO.ROLE_TAKER_FIELD, TransitiveProperty, HasInverseProperty)
    return facts


def final_write(w, style, e):
    """one element written to the field in one of the equivalent ways"""
    o, n, v = w.owner, w.fname, w.univ[e]
    f = w.get
    if style == "append":
        f().append(v)
    elif style == "extend":
        f().extend([v])
    elif style == "iadd":
        x = getattr(o, n); x += [v]; setattr(o, n, x)
    elif style == "iadd_alias":
        alias = f(); alias += [v]
    elif style == "assign_concat":
        setattr(o, n, [unwrap(i) for i in f()] + [v])
    elif style == "insert_end":
        f().insert(len(f()), v)
    elif style == "setslice_end":
        k = len(f()); f()[k:k] = [v]
    elif style == "add":
        f().add(v)
    elif style == "update":
        f().update([v])
    elif style == "ior":
        x = getattr(o, n); x |= {v}; setattr(o, n, x)
    elif style == "ior_alias":
        alias = f(); alias |= {v}
    elif style == "assign_union":
        setattr(o, n, {unwrap(i) for i in f()} | {v})
    else:
        raise ValueError(style)


def run_inferred_case(case):
    field, init, how, seq = case
    res = CaseResult()
    prefix, e = seq[:-1], seq[-1][1]
    outcomes = {}
    for style in (FINAL_LIST if field == "list" else FINAL_SET):
        try:
            w = World(field, init, how)
            applied = [op for op in prefix if w.apply(op)]
            before = w.contents()
            final_write(w, style, e)
        except Exception as ex:
            res.failures.append(Failure("crash", f"{field} field with inferred contents {init}: {prefix} then {style}({e}): "
                                                 f"{type(ex).__name__}: {ex}"))
            return res
        got = w.contents()
        res.transitions += len(applied) + 1
        key = tuple(repr(x) + ("'" if x is w.univ[3] else "") for x in got)
        outcomes[style] = key if field == "list" else tuple(sorted(key))
        states_before = tuple(repr(x) for x in before)
    distinct = set(outcomes.values())
    res.states = [states_before] + sorted(distinct)
    res.outcome_key = tuple(sorted(distinct))
    res.nontrivial_key = case
    res.features = [f"inferred:{field}:{op[0]}" for op in prefix] + [f"init:inferred:{len(init)}"]
    if len(distinct) > 1:
        res.failures.append(Failure(
            "ways-of-writing-disagree",
            f"{field} field whose contents {init} were inferred through the inverse property, after {prefix}: writing element "
            f"{e} leaves different contents depending on how it is written: {outcomes}", case=case))
    return res


def run_tlist_case(case):
    """
    The field's own inferences append to it. After every operation: the explicitly written elements are there in the order
    Python gives them (a subsequence of the field), everything else in the field is an ancestor of something that was
    written (once), every ancestor of a CURRENT element is in the field, and the graph relates the owner to nothing else.
    """
    field, init, how, seq = case
    res = CaseResult()
    w = World(field, init, how)
    U = w.univ
    idx = {id(u): i for i, u in enumerate(U)}
    ever = set(init)
    states = []
    for i, op in enumerate(seq):
        # positions refer to the whole list, inferred entries included: the reference is Python's list operation applied
        # to the contents the field had before the operation
        before = [idx[id(x)] for x in w.contents()]
        w.model = list(w.contents())
        if op[0] == "setitem" and not -len(before) <= op[1] < len(before):
            continue
        try:
            w.apply(op)
        except Exception as e:
            res.failures.append(Failure("crash", f"transitive list field from {init}: {seq[:i + 1]}: {type(e).__name__}: {e}"))
            break
        res.transitions += 1
        ever_before = set(ever) | set(before)
        ever |= set(before) | {idx[id(x)] for x in w.model}
        got = [idx[id(x)] for x in w.contents()]
        model = [idx[id(x)] for x in w.model]
        inferable = {a for e in ever for a in ANCESTORS[e]}
        written = list(model)
        for x in before:
            if x in written:
                written.remove(x)
        it = iter(got)
        in_order = all(any(x == y for y in it) for x in model)
        extras = list(got)
        for x in model:
            if x in extras:
                extras.remove(x)
        # an ancestor that was part of the field before is related to the owner already (nothing is ever retracted from the
        # graph), so it is not inferred again: if it left the field, by this operation or an earlier one, it stays away
        wanted = {a for e in written for a in ANCESTORS[e] if a not in ever_before} | set(model)
        related = {idx[t] for s_, f_, t in w.graph_facts() if s_ == id(w.owner) and f_ == w.fname and t in idx}
        name = lambda xs: [repr(U[j]) for j in xs]
        states.append((tuple(got), len(related)))
        problem = None
        if not in_order:
            problem = f"the written elements {name(model)} are not there in this order"
        elif not set(extras) <= inferable or len(set(extras)) != len(extras) or set(extras) & set(model):
            problem = f"besides the written elements {name(model)} it holds {name(extras)}, inferable are only {name(sorted(inferable))}"
        elif not wanted <= set(got):
            problem = f"it lacks {name(sorted(wanted - set(got)))} (ancestors of the elements written by this operation, {name(written)})"
        elif not related <= ever | inferable:
            problem = f"the graph relates the owner to {name(sorted(related - ever - inferable))}, which was never part of the field"
        elif not wanted <= related:
            problem = f"the graph lacks the relations to {name(sorted(wanted - related))}"
        if problem:
            res.failures.append(Failure("wrong-contents", f"transitive list field (c2 < c1 < c0) from {name(init)} after {seq[:i + 1]}: "
                                                          f"the field was {name(before)} and is {name(got)}: {problem}", case=(field, init, how, tuple(seq[:i + 1]))))
            break
    res.states = states
    res.outcome_key = tuple(states[-1:])
    res.nontrivial_key = case
    res.features = [f"tlist:{op[0]}" for op in seq] + [f"init:tlist:{len(init)}"]
    return res


def run_case(case):
    field, init, how, seq = case
    if how == "inferred":
        return run_inferred_case(case)
    if field == "tlist":
        return run_tlist_case(case)
    res = CaseResult()
    try:
        w = World(field, init, how)
    except Exception as e:
        res.failures.append(Failure("crash", f"building initial contents {init} via {how}: {type(e).__name__}: {e}"))
        return res
    states = []
    changed = False
    # the initial state must be right as well (assignment in the initial construction is a write, too)
    steps = [("<initial %s>" % how,)] + list(seq)
    for i, op in enumerate(steps):
        if i > 0:
            before = list(w.model) if field == "list" else set(w.model)
            try:
                if not w.apply(op):
                    res.features = list(res.features) + ["skipped:setitem-on-empty"]
                    continue
            except Exception as e:
                res.failures.append(Failure("crash", f"{field} field from {init}: {steps[1:i + 1]}: {type(e).__name__}: {e}"))
                break
            changed = changed or before != w.model
            res.transitions += 1
        got = w.contents()
        inferred_extra = None
        if how == "ctor_subproperty":
            # the owner works for c0, so c0 is a member_of value by inference whatever is written to the field; where in
            # the list an inferred value sits (and whether it is repeated) is not defined: elements are compared as a set
            inferred_extra = w.univ[0]
        names = lambda xs: [repr(x) for x in xs]
        if inferred_extra is not None:
            ok = {id(x) for x in got} == {id(x) for x in w.model} | {id(inferred_extra)}
        elif field == "list":
            ok = len(got) == len(w.model) and all(a is b for a, b in zip(got, w.model))
        else:
            ok = len(got) == len(w.model) and {id(x) for x in got} == {id(x) for x in w.model}
        g = w.graph_facts()
        states.append((tuple(names(got)), len(g)))
        if not ok:
            exp = names(w.model) if field == "list" else sorted(names(w.model))
            res.failures.append(Failure("wrong-contents", f"{field} field from {init} ({how}) after {steps[1:i + 1]}: "
                                                          f"contains {names(got)}, Python semantics give {exp}",
                                        case=(field, init, how, tuple(steps[1:i + 1]))))
            break
        exp = expected_closure(w)
        fl = w.field_facts()
        if not exp <= g:
            res.failures.append(Failure("missing-relation", f"{field} field from {init} ({how}) after {steps[1:i + 1]}: "
                                                            f"graph lacks {w.show(exp - g)}",
                                        case=(field, init, how, tuple(steps[1:i + 1]))))
            break
        if not exp <= fl:
            res.failures.append(Failure("missing-inference", f"{field} field from {init} ({how}) after {steps[1:i + 1]}: "
                                                             f"fields lack {w.show(exp - fl)}",
                                        case=(field, init, how, tuple(steps[1:i + 1]))))
            break
    res.states = states
    res.outcome_key = tuple(states[-1:]) if states else None
    if changed:
        res.nontrivial_key = case
    res.features = list(res.features) + [f"{field}:{op[0]}" for op in seq] + [f"init:{how}:{len(init)}"]
    if not res.failures and changed and len(seq) >= 2:
        res.sample = {"field": field, "initial": list(init), "ops": [list(map(str, op)) for op in seq],
                      "final": [repr(x) for x in w.contents()]}
    return res


def finish(run):
    if run.exhaustive and not run.failures:
        for k in ("tlist:setitem", "tlist:insert", "tlist:setslice", "tlist:bad_setitem", "inferred:list:setitem", "inferred:list:pop", "inferred:set:discard_first", "list:setitem", "list:setslice", "list:setslice_gen", "list:setslice_self", "list:extend_gen", "set:update_gen", "set:ior", "list:iadd", "list:assign_self"):
            if not run.features.get(k):
                raise HarnessError(f"vacuous: {k} never exercised")


def classify(case, failure):
    return None


def cluster_key(case, f):
    c = f.case or case
    seq = c[3]
    return (c[0], seq[-1][0] if seq else "<initial " + c[2] + ">")


def repro(case):
    return f"""# C16 replay
import sys; sys.path.insert(0, '/verif')
from checks import c16
c16.init_worker()
for f in c16.run_case({case!r}).failures: print(f.kind, f.detail)
"""


def _m_extend_plain():
    from krrood.ontomatic.property_descriptor import monitored_container as M
    M.MonitoredList.extend = lambda self, items: list.extend(self, items)


def _m_setitem_no_on_add():
    from krrood.ontomatic.property_descriptor import monitored_container as M
    M.MonitoredList.__setitem__ = lambda self, i, v: list.__setitem__(self, i, v)


def _m_extend_twice():
    from krrood.ontomatic.property_descriptor import monitored_container as M
    def extend(self, items):
        for item in items:
            self._on_add(item)
        list.extend(self, items)
    M.MonitoredList.extend = extend


def _m_update_skips_existing_relation():
    from krrood.ontomatic.property_descriptor import monitored_container as M
    def update(self, values):
        for v in values:
            if len(self) < 2:
                self._add_item(v)
            else:
                set.add(self, v)
    M.MonitoredSet.update = update


def _m_setslice_value_as_one_item():
    # the slice assignment before the C16-F7 fix: the assigned iterable is handed to the hook as one item
    from krrood.ontomatic.property_descriptor import monitored_container as M
    def setitem(self, idx, value):
        value = self._on_add(value)
        list.__setitem__(self, idx, value)
    M.MonitoredList.__setitem__ = setitem


def _m_hook_before_positional_write():
    # before the C16-F8 fix: the item is recorded first, then written at a position that may be stale by then
    from krrood.ontomatic.property_descriptor import monitored_container as M
    def setitem(self, idx, value):
        if isinstance(idx, slice):
            value = [self._on_add(item) for item in list(value)]
        else:
            value = self._on_add(value)
        list.__setitem__(self, idx, value)
    def insert(self, idx, item):
        item = self._on_add(item)
        list.insert(self, idx, item)
    M.MonitoredList.__setitem__ = setitem
    M.MonitoredList.insert = insert


MUTANTS = {"hook_before_positional_write": _m_hook_before_positional_write, "setslice_value_as_one_item": _m_setslice_value_as_one_item, "extend_plain": _m_extend_plain, "setitem_no_on_add": _m_setitem_no_on_add, "extend_twice": _m_extend_twice,
           "update_skips": _m_update_skips_existing_relation}


def apply_mutant(name):
    MUTANTS[name]()
