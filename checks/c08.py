"""
C08 - rule trees follow except-if / else-if / also-if semantics.

E1 over programs x exhaustive data: every written rule tree with <= k branches, built through nested `with` blocks
exactly as a user writes them; branch i's condition is x.b_i == True and the domain holds one object per truth
valuation of all conditions, so every combination of branch outcomes occurs for every tree.
"""
from __future__ import annotations

import itertools
from dataclasses import dataclass, field, make_dataclass

from mc.core import CaseResult, Failure, HarnessError
from oracles import rdr

PROPERTY = "C08"
LEVEL = "exploration"
RULE = ("all written rule trees with <=k branches (root with/without own conclusion; per block at most one refinement, "
        "any number of alternative/next_rule follow-ups; next_rule only at root level and inside next_rule blocks) "
        "built with nested `with` blocks through refinement()/alternative()/next_rule() x ALL 2^k truth valuations of the "
        "branch conditions (one domain object per valuation); observed (tag, object) multiset vs the reference "
        "ripple-down-rules interpreter. non-trivial = trees with >=2 branches")
ASSUMPTIONS = ["two refinement siblings in one block, next_rule inside a refinement or alternative block, an alternative "
               "written after a next_rule in the same block, and conclusions not covering the branch's variables are "
               "outside the statement (it does not define them)"]
BOUNDS = {"quick": {"branches": 6, "branches_two_variables": 5, "branches_condition_styles": 4, "branches_two_blocks": 4, "branches_statement_order": 5},
          "thorough": {"branches": 7, "branches_two_variables": 6, "branches_condition_styles": 5, "branches_two_blocks": 5, "branches_statement_order": 6}}
CHUNK = 20
RECYCLE_CHUNKS = 10
BUDGET_S = {"quick": 900, "thorough": 8000}
KMAX = 6


@dataclass(eq=False)
class RItem:
    name: str
    b0: bool = False
    b1: bool = False
    b2: bool = False
    b3: bool = False
    b4: bool = False
    b5: bool = False
    b6: bool = False
    b7: bool = False

    def __repr__(self):
        return self.name


@dataclass(eq=False)
class ROut:
    tag: int = -1
    p: object = None
    q: object = None

    def __repr__(self):
        return f"ROut({self.tag},{self.p})"


def blocks(n, ctx):
    """all blocks with exactly n branches; ctx in root|alt|next|ref decides which follow-up kinds may be written inside"""
    kinds = {"root": ("alt", "next"), "next": ("alt", "next"), "alt": ("alt",), "ref": ("alt",)}[ctx]
    out = []
    conc_options = (True, False) if ctx == "root" else (True,)
    # split n-1 remaining branches between the refinement subtree and a sequence of follow-ups
    for has_c in conc_options:
        for r in range(0, n):
            refs = [None] if r == 0 else blocks(r, "ref")
            for ref in refs:
                for fol in followup_seqs(n - 1 - r, kinds):
                    out.append((has_c, ref, fol))
    return out


def followup_seqs(m, kinds):
    """all sequences of follow-up blocks using exactly m branches"""
    if m == 0:
        return [()]
    out = []
    for first in range(1, m + 1):
        for kind in kinds:
            for b in blocks(first, kind):
                # an alternative written after a next_rule in the same block is outside the alphabet (the statement does
                # not say whether the next_rule belongs to the alternative's chain): after a next_rule only next_rules
                rest_kinds = kinds if kind == "alt" else tuple(k for k in kinds if k == "next")
                for rest in followup_seqs(m - first, rest_kinds):
                    out.append(((kind, b),) + rest)
    return out


def cases(tier, seed):
    out = []
    for n in range(1, BOUNDS[tier]["branches"] + 1):
        for b in blocks(n, "root"):
            if n == 1 and not b[0]:
                continue
            out.append(b)
    for n in range(1, BOUNDS[tier]["branches_two_variables"] + 1):
        for b in blocks(n, "root"):
            if n == 1 and not b[0]:
                continue
            if b[2]:
                # root-level alternatives / next rules do not depend on the base conditions that bind y, their
                # conclusions would use a variable the branch does not bind: outside the statement
                continue
            out.append(("two_vars", b))
    # condition styles: a branch condition can be a comparison (above), a bare boolean attribute or a Predicate - the
    # latter two are variable-like nodes (they overload ==, can be selected, ...) and are wired into the tree differently
    for n in range(1, BOUNDS[tier]["branches_condition_styles"] + 1):
        for b in blocks(n, "root"):
            if n == 1 and not b[0]:
                continue
            for style in STYLES:
                out.append(("style", style, b))
    # the statements of every block written in another order: the refinement after the first follow-up / after all
    # follow-ups (the relative order of the alternatives, which the statement makes significant, stays as it is)
    for n in range(3, BOUNDS[tier]["branches_statement_order"] + 1):
        for b in blocks(n, "root"):
            if has_refinement_and_followup(b):
                for order in ("ref_after_first_followup", "ref_last"):
                    out.append(("order", order, b))
    # the tree written in two `with query:` blocks, split after every root-level statement
    for n in range(2, BOUNDS[tier]["branches_two_blocks"] + 1):
        for b in blocks(n, "root"):
            nstatements = (1 if b[0] else 0) + (1 if b[1] is not None else 0) + len(b[2])
            for split in range(1, nstatements):
                out.append(("blocks", split, b))
            if b[2] and (b[0] or b[1] is not None):
                out.append(("blocks", -1, b))  # follow-ups first; conclusion and refinement in the second block
                if b[0] and b[1] is not None:
                    out.append(("blocks", -2, b))  # follow-ups and conclusion first; refinement in the second block
    return out


def has_refinement_and_followup(block):
    has_c, ref, fol = block
    if ref is not None and fol:
        return True
    return (ref is not None and has_refinement_and_followup(ref)) or any(has_refinement_and_followup(f) for _, f in fol)


STYLES = {"bare": lambda i: "bare", "pred": lambda i: "pred", "bare_even": lambda i: "bare" if i % 2 == 0 else "cmp",
          "pred_odd": lambda i: "pred" if i % 2 else "cmp", "bare_pred": lambda i: "bare" if i % 2 == 0 else "pred",
          # the base condition is an existential quantifier that holds exactly when b0 does
          "exists_base": lambda i: "exists" if i == 0 else "cmp",
          # the last condition is the Python constant True (an unconditional else / next branch); only valuations in
          # which that condition's attribute is True are compared
          "last_true": lambda i: "cmp",
          # branches 1 and 2 are written with ONE condition object; only valuations with b1 == b2 are compared
          "shared_1_2": lambda i: "cmp"}
_PRED = []


def bit_predicate():
    if not _PRED:
        from krrood.entity_query_language.predicate import Predicate

        @dataclass(eq=False)
        class BitIs(Predicate):
            item: object
            index: int

            def __call__(self):
                return getattr(self.item, f"b{self.index}")
        _PRED.append(BitIs)
    return _PRED[0]


@dataclass(eq=False)
class RSide:
    name: str
    k: int = 0

    def __repr__(self):
        return self.name


def build_and_run(block, two_vars=False, style=None, split=None, order=None):
    from krrood.entity_query_language.entity import entity, let, inference, exists, and_
    from krrood.entity_query_language.quantify_entity import an
    from krrood.entity_query_language.conclusion import Add
    from krrood.entity_query_language.rule import refinement, alternative, next_rule
    nb = rdr.number(block)
    k = rdr.size(block)
    dom = []
    for bits in itertools.product((False, True), repeat=k):
        dom.append(RItem("x" + "".join("1" if b else "0" for b in bits), *bits))
    x = let(RItem, dom, name="x")
    v = inference(ROut)()
    shared_objects = {}

    def cond(i):
        how = STYLES[style](i) if style else "cmp"
        if style == "last_true" and i == k - 1 and i > 0:
            return True
        if style == "shared_1_2" and i in (1, 2) and k >= 3:
            if "c" not in shared_objects:
                shared_objects["c"] = getattr(x, "b1") == True
            return shared_objects["c"]
        if how == "exists":
            w = let(RSide, [RSide("w0", 0), RSide("w1", 1)], name="w")
            return exists(w, and_(w.k == 0, getattr(x, f"b{i}") == True))
        if how == "bare":
            return getattr(x, f"b{i}")
        if how == "pred":
            return bit_predicate()(x, i)
        return getattr(x, f"b{i}") == True
    if two_vars:
        sides = [RSide("y0", 0), RSide("y1", 1), RSide("y-", -1)]
        y = let(RSide, sides, name="y")
        query = an(entity(v, cond(0), y.k >= 0))
    else:
        query = an(entity(v, cond(0)))

    def body(nb):
        i, has_c, ref, fol = nb
        if has_c:
            if two_vars:
                Add(v, inference(ROut)(tag=i, p=x, q=y))
            else:
                Add(v, inference(ROut)(tag=i, p=x))
        ref_at = 0 if order is None or ref is None else (min(1, len(fol)) if order == "ref_after_first_followup" else len(fol))

        def write_refinement():
            if ref is not None:
                with refinement(cond(ref[0])):
                    body(ref)
        for j, (kind, fb) in enumerate(fol):
            if j == ref_at:
                write_refinement()
            if kind == "alt":
                with alternative(cond(fb[0])):
                    body(fb)
            else:
                with next_rule(cond(fb[0])):
                    body(fb)
        if ref_at >= len(fol):
            write_refinement()

    if split is None:
        with query:
            body(nb)
    else:
        # the same tree written in TWO `with query:` blocks: the first `split` root-level statements (conclusion,
        # refinement, follow-ups in the order they are written) in the first block, the others in a second one
        i, has_c, ref, fol = nb
        statements = ([("conclusion",)] if has_c else []) + ([("refinement", ref)] if ref is not None else []) \
            + [(kind, fb) for kind, fb in fol]
        if split < 0:
            # the root's own conclusion and refinement are written LAST, in the second block, after the follow-ups
            statements = [(kind, fb) for kind, fb in fol] + ([("conclusion",)] if has_c else []) \
                + ([("refinement", ref)] if ref is not None else [])
            split = len(fol) if split == -1 else len(fol) + (1 if has_c else 0)

        def write(st):
            if st[0] == "conclusion":
                body((i, True, None, ()))
            elif st[0] == "refinement":
                body((i, False, st[1], ()))
            else:
                body((i, False, None, (st,)))
        with query:
            for st in statements[:split]:
                write(st)
        with query:
            for st in statements[split:]:
                write(st)
    results = list(query.evaluate())
    got = {}
    for r in results:
        got.setdefault(r.p.name, []).append(r.tag if not two_vars else (r.tag, r.q.name))
    return dom, {n: sorted(t) for n, t in got.items()}, k


def run_case(block):
    res = CaseResult()
    two_vars = block[0] == "two_vars"
    style = None
    split = None
    if two_vars:
        block = block[1]
    elif block[0] == "style":
        style, block = block[1], block[2]
    elif block[0] == "blocks":
        split, block = block[1], block[2]
    order = None
    if block[0] == "order":
        order, block = block[1], block[2]
    k = rdr.size(block)
    text = "\n".join(["with query(c0):"] + ["    " + l for l in rdr.show(block)])
    if split is not None:
        how = (f"the second one starts with root-level statement #{split + 1}" if split > 0 else
               "first the follow-ups, then - in the second block - the root's conclusion and refinement" if split == -1 else
               "first the follow-ups and the root's conclusion, then - in the second block - the root's refinement")
        text = f"[written in two `with query:` blocks: {how}]\n" + text
    if order:
        text = ("[in every block the refinement is written %s]\n" % ("after the first follow-up" if order == "ref_after_first_followup"
                                                                      else "after all follow-ups")) + text
    if style:
        text = f"[conditions written as: {', '.join('c%d=%s' % (i, STYLES[style](i)) for i in range(k))}]\n" + text
    try:
        dom, got, k = build_and_run(block, two_vars, style, split, order)
    except Exception as e:
        res.failures.append(Failure("crash", f"{text}\n{type(e).__name__}: {e}"))
        return res
    wrong = []
    for o in dom:
        truth = [getattr(o, f"b{i}") for i in range(k)]
        if style == "last_true" and k > 1 and not truth[k - 1]:
            continue
        if style == "shared_1_2" and k >= 3 and truth[1] != truth[2]:
            continue
        exp = rdr.conclusions(block, truth)
        if two_vars:
            # the base conditions bind y as well: a branch that needs the base (root chain) fires once per y; branches
            # that do not depend on the base conditions (root-level alternatives and next rules when the base is false)
            # are outside this variant, so only valuations with a true base condition are compared
            if not truth[0]:
                continue
            exp = sorted((t, yn) for t in exp for yn in ("y0", "y1"))
        g = got.get(o.name, [])
        if g != exp:
            wrong.append((o.name, g, exp))
    res.evaluations = len(dom)
    res.outcome_key = tuple(sorted((n, tuple(t)) for n, t in got.items()))
    if k >= 2:
        res.nontrivial_key = (two_vars, style, split, order, block)
    res.features = {"branches:%d" % k, "two_vars" if two_vars else "one_var", "style:%s" % (style or "cmp"),
                    "two-blocks" if split is not None else "one-block", "order:%s" % (order or "ref_first")} | {"has:" + kk for kk in kinds_in(block)}
    if wrong:
        n, g, e = wrong[0]
        res.failures.append(Failure("wrong-conclusions", f"{text}\nfor the binding with condition values {n[1:]}: inferred tags {g}, "
                                                         f"expected {e} ({len(wrong)} of {len(dom)} bindings differ)"))
    elif k >= 3:
        res.sample = {"tree": text.split("\n"), "valuations": len(dom)}
    return res


def kinds_in(block):
    has_c, ref, fol = block
    out = set()
    if ref is not None:
        out.add("refinement")
        out |= {"ref>" + k for k in kinds_in(ref)}
    for k, f in fol:
        out.add(k)
        out |= {k + ">" + kk for kk in kinds_in(f)}
    return out


def shape_signature(block, ctx="root"):
    """coarse structural features used for clustering/classification"""
    has_c, ref, fol = block
    feats = set()
    if ref is not None:
        if ctx != "root":
            feats.add(f"refinement-inside-{ctx}")
        feats |= shape_signature(ref, "ref")
    alts = [f for k, f in fol if k == "alt"]
    nexts = [f for k, f in fol if k == "next"]
    if len(alts) >= 2:
        feats.add(f"two-alternatives-written-in-one-{ctx}-block")
    if alts and any(f[2] for f in alts):
        feats.add(f"alternative-with-nested-alternative-in-{ctx}")
    if nexts:
        feats.add("next_rule")
    if not has_c:
        feats.add("root-without-conclusion")
    for k, f in fol:
        feats |= shape_signature(f, k)
    return feats


def classify(case, failure):
    from checks import c08_findings
    return c08_findings.classify(case, failure)


def cluster_key(case, f):
    block = case[1] if case[0] == "two_vars" else case[2] if case[0] in ("style", "blocks") else case
    return tuple(sorted(shape_signature(block))) + (case[0] if case[0] in ("two_vars", "style", "blocks") else "",)


def finish(run):
    if run.exhaustive and not (run.features.get("has:refinement") and run.features.get("style:bare") and run.features.get("style:pred")
                               and run.features.get("two-blocks")):
        raise HarnessError("vacuous")


def repro(case):
    return f"""# C08 replay
import sys; sys.path.insert(0, '/verif')
from checks import c08
for f in c08.run_case({case!r}).failures: print(f.kind, f.detail)
"""


# ---- mutants -----------------------------------------------------------------------------------
def _m_climb_once():
    from krrood.entity_query_language import rule as R
    from krrood.entity_query_language.symbolic import SymbolicExpression, chained_logic, AND, BinaryOperator
    from krrood.entity_query_language.conclusion_selector import ExceptIf, Alternative, Next
    from krrood.entity_query_language.enums import RDREdge
    def alternative_or_next(type_, *conditions):
        new_branch = chained_logic(AND, *conditions)
        current_node = SymbolicExpression._current_parent_()
        if isinstance(current_node._parent_, (Alternative, Next)):
            current_node = current_node._parent_
        elif isinstance(current_node._parent_, ExceptIf) and current_node is current_node._parent_.left:
            current_node = current_node._parent_
        prev_parent = current_node._parent_
        current_node._parent_ = None
        new_root = (Alternative if type_ == RDREdge.Alternative else Next)(current_node, new_branch)
        new_branch._node_.weight = type_
        new_root._parent_ = prev_parent
        if isinstance(prev_parent, BinaryOperator):
            prev_parent.right = new_root
        return new_root.right
    R.alternative_or_next = alternative_or_next


def _m_exceptif_keeps_left():
    from krrood.entity_query_language import conclusion_selector as C
    orig = C.ExceptIf._evaluate__
    def _evaluate__(self, sources=None, parent=None):
        self._eval_parent_ = parent
        sources = sources or {}
        for left_value in self.left._evaluate__(sources, parent=self):
            self._is_false_ = left_value.is_false
            if self._is_false_:
                yield left_value
                continue
            right_yielded = False
            for right_value in self.right._evaluate__(left_value.bindings, parent=self):
                if right_value.is_false:
                    continue
                right_yielded = True
                yield from self.yield_and_update_conclusion(right_value, self.right._conclusion_)
            if not right_yielded or len(self.left._conclusion_) > 1:
                yield from self.yield_and_update_conclusion(left_value, self.left._conclusion_)
    C.ExceptIf._evaluate__ = _evaluate__


def _m_next_skips_left_evaluated():
    from krrood.entity_query_language import conclusion_selector as C
    from krrood.entity_query_language.symbolic import Union as U, OperationResult
    def _evaluate__(self, sources=None, parent=None):
        outputs = U._evaluate__(self, sources, parent=parent)
        for output in outputs:
            if self.right_evaluated:
                self.update_conclusion(output, self.right._conclusion_)
            elif self.left_evaluated:
                self.update_conclusion(output, self.left._conclusion_)
            yield OperationResult(output.bindings, self._is_false_, self)
            self._conclusion_.clear()
    C.Next._evaluate__ = _evaluate__


def _m_shared_dedup():
    from krrood.entity_query_language import conclusion_selector as C
    from krrood.entity_query_language.cache_data import SeenSet
    from krrood.entity_query_language.hashed_data import HashedIterable
    from krrood.entity_query_language.symbolic import Literal
    def update_conclusion(self, output, conclusions):
        if not conclusions:
            return
        required_vars = HashedIterable()
        for conclusion in conclusions:
            required_vars.update(conclusion._unique_variables_.filter(lambda v: not isinstance(v.value, Literal)))
        required_output = {k: v for k, v in output.bindings.items() if k in required_vars}
        seen = self.concluded_before[not self._is_false_].setdefault("all", SeenSet())
        if not seen.check(required_output):
            self._conclusion_.update(conclusions)
            seen.add(required_output)
    C.ConclusionSelector.update_conclusion = update_conclusion


def _m_no_skip_of_wrapping_refinements():
    # alternative_or_next before the C08-F9 fix: a block that is already wrapped by its refinement takes the new branch itself
    from krrood.entity_query_language import rule as R
    from krrood.entity_query_language.symbolic import SymbolicExpression, BinaryOperator
    from krrood.entity_query_language.conclusion_selector import ExceptIf, Alternative, Next
    from krrood.entity_query_language.enums import RDREdge

    def alternative_or_next(type_, *conditions):
        new_branch = R._branch_conditions(*conditions)
        current_node = SymbolicExpression._current_parent_()
        if isinstance(current_node._parent_, (Alternative, Next)):
            current_node = current_node._parent_
        while isinstance(current_node._parent_, (Alternative, Next, ExceptIf)) and current_node is current_node._parent_.left:
            current_node = current_node._parent_
        prev_parent = current_node._parent_
        current_node._parent_ = None
        root = (Alternative if type_ == RDREdge.Alternative else Next)(current_node, new_branch)
        new_branch._node_.weight = type_
        root._parent_ = prev_parent
        if isinstance(prev_parent, BinaryOperator):
            if prev_parent.left is current_node:
                prev_parent.left = root
            else:
                prev_parent.right = root
        return root.right
    R.alternative_or_next = alternative_or_next


MUTANTS = {"no_skip_of_wrapping_refinements": _m_no_skip_of_wrapping_refinements, "climb_once": _m_climb_once, "shared_dedup": _m_shared_dedup}


def apply_mutant(name):
    MUTANTS[name]()
