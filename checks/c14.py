"""
C14 - asserting a relation has the same effect whatever objects lived and died before.

E2, differential: every garbage-producing prefix history (create / relate / drop / sweep, all prefix objects dead at the
end, so that rustworkx node indices and CPython addresses are recycled) followed by every assertion suffix on fresh
objects; the facts about the suffix objects must equal those of the same suffix on a freshly cleared graph and the
reference closure.
"""
from __future__ import annotations

import gc
import itertools
import weakref

from mc.core import CaseResult, Failure, HarnessError
from mc import idadv

PROPERTY = "C14"
LEVEL = "model_checking"
RULE = ("all prefix histories to the stated depth over {new person, new company, new CEO, three relation forms on the "
        "newest pair, drop oldest/newest, sweep} closed by dropping every prefix object (with and without a final "
        "sweep), x all suffixes (creation orders of a fresh person/company[/CEO] x single assertions and ordered "
        "pairs of assertions); oracle = same suffix on a cleared graph (differential) and the reference closure. "
        "No state de-duplication. non-trivial = prefixes in which a related instance died and was swept")
ASSUMPTIONS = ["sweep = SymbolGraph().remove_dead_instances(), which is what every evaluate() calls first",
               "gc.collect() after dropping makes cyclic garbage die like acyclic garbage"]
BOUNDS = {"quick": {"prefix_depth": 4, "prefix_depth_core_suffixes": 5, "unit_history_depth": 5},
          "thorough": {"prefix_depth": 5, "prefix_depth_core_suffixes": 6, "unit_history_depth": 6}}
CHUNK = 300
RECYCLE_CHUNKS = 6
BUDGET_S = {"quick": 900, "thorough": 8000}

PREFIX_OPS = ["newP", "newC", "newE", "rel_w", "rel_m", "rel_s", "rel_h", "drop_old", "drop_new", "sweep"]

SUFFIXES = []
for order in ("PC", "CP"):
    for asserts in (("w",), ("m",), ("s",), ("w", "s"), ("s", "w"), ("m", "s"), ("s", "m"), ("w", "m")):
        SUFFIXES.append((order, asserts))
for order in ("PEC", "CPE"):
    for asserts in (("h",), ("h", "s"), ("w", "h2")):
        SUFFIXES.append((order, asserts))
# a sweep (what every evaluate() does first) between the creation of the suffix objects and an assertion, and between
# two assertions
SUFFIXES += [("PC", ("sweep", "w")), ("CP", ("sweep", "s", "m")), ("PC", ("w", "sweep", "m")), ("CP", ("s", "sweep", "w")),
             ("PEC", ("sweep", "h")), ("PEC", ("h", "sweep", "s"))]


CORE_SUFFIXES = [("PC", ("w",)), ("CP", ("w",)), ("CP", ("s", "m")), ("PC", ("m",)), ("PEC", ("h",)), ("CPE", ("h", "s")),
                 ("PC", ("w", "sweep", "m")), ("CP", ("sweep", "s", "m"))]


def cases(tier, seed):
    d = BOUNDS[tier]["prefix_depth"]
    out = []
    for k in range(0, d + 1):
        for pre in itertools.product(PREFIX_OPS, repeat=k):
            # relation ops need something to relate: prune prefixes that cannot execute them (pure no-ops)
            if not admissible(pre):
                continue
            for final_sweep in (True, False):
                for suf in SUFFIXES:
                    out.append((pre, final_sweep, suf))
    k = BOUNDS[tier]["prefix_depth_core_suffixes"]
    for pre in itertools.product(PREFIX_OPS, repeat=k):
        if not admissible(pre) or "sweep" not in pre and False:
            continue
        for final_sweep in (True, False):
            for suf in CORE_SUFFIXES:
                out.append((pre, final_sweep, suf))
    # the same histories when the allocator hands the identity of every dead instance to the next instance born
    # (mc/idadv.py): wherever an instance is born after another one died without a sweep in between
    for pre, final_sweep, suf in list(out):
        if len(pre) <= d and reuse_possible(pre, final_sweep) and (suf in CORE_SUFFIXES or len(pre) < d):
            out.append((pre, final_sweep, suf, "recycled"))
    units = unit_cases(BOUNDS[tier]["unit_history_depth"])
    out += units
    out += [("units@recycled", seq) for _, seq in units if len(seq) < BOUNDS[tier]["unit_history_depth"]]
    return out


def reuse_possible(pre, final_sweep):
    """some instance is born after another one died and before the next sweep"""
    dead_unswept = False
    for op in pre:
        if op.startswith("drop"):
            dead_unswept = True
        elif op == "sweep":
            dead_unswept = False
        elif op.startswith("new") and dead_unswept:
            return True
    return bool(pre) and any(op.startswith("new") for op in pre) and not final_sweep


UNIT_OPS = ["newU", "rel_new_old", "rel_old_new", "rel_new_mid", "clear_new", "clear_old", "drop_old", "drop_new", "sweep"]


UNIT_STARTS = {0: (), 1: ("newU", "newU", "rel_new_old"), 2: ("newU", "newU", "rel_new_old", "newU", "rel_new_mid"),
               # a unit dies unswept, the next one is born (at its address, under the identity adversary) and gets related
               3: ("newU", "drop_new", "newU", "newU", "rel_old_new")}


def unit_cases(depth):
    """histories over units with a transitive part_of (inverse has_part): objects survive while others they were
    related to die, with and without sweeps in between; from the empty graph and from two pre-related populations"""
    out = []
    for start, pre in UNIT_STARTS.items():
        for k in range(1, depth + 1 - (1 if pre else 0)):
            for seq in itertools.product(UNIT_OPS, repeat=k):
                full = pre + seq
                if not pre and (seq[0] != "newU" or seq.count("newU") < 2):
                    continue
                if not any(o.startswith("rel") for o in full) or not any(o.startswith(("drop", "clear")) for o in full):
                    continue
                out.append(("units", full))
    return list(dict.fromkeys(out))


def run_units(case, note=""):
    from krrood.entity_query_language.symbol_graph import SymbolGraph
    from oracles.closure import closure
    from krrood.ontomatic.property_descriptor.mixins import HasInverseProperty, TransitiveProperty
    _, seq = case
    res = CaseResult()
    _O.reset_graph()
    live = []
    asserted = []  # (source, "part_of", target) facts whose ends are both alive and which were not given up
    n = 0
    states = []
    died = False
    for i, op in enumerate(seq):
        n += 1
        res.transitions += 1
        where = f"units: after {seq[:i + 1]}{note}"
        try:
            if op == "newU":
                live.append(_O.VUnit(f"u{n}"))
            elif op.startswith("rel_") and len(live) >= 2:
                src, tgt = {"rel_new_old": (live[-1], live[0]), "rel_old_new": (live[0], live[-1]),
                            "rel_new_mid": (live[-1], live[len(live) // 2 - 1 if len(live) > 2 else 0])}[op]
                if src is not tgt and not any(f[0] is src and f[2] is tgt for f in asserted):
                    src.part_of.append(tgt)
                    asserted.append((src, "part_of", tgt))
            elif op in ("clear_new", "clear_old") and live:
                o = live[-1] if op == "clear_new" else live[0]
                o.part_of = []
                asserted = [f for f in asserted if f[0] is not o]
            elif op in ("drop_old", "drop_new") and live:
                o = live.pop(0 if op == "drop_old" else -1)
                asserted = [f for f in asserted if f[0] is not o and f[2] is not o]
                r = weakref.ref(o)
                del o
                if r() is not None:
                    gc.collect()
                died = died or r() is None
            elif op == "sweep":
                SymbolGraph().remove_dead_instances()
            src = tgt = o = None
        except Exception as e:
            res.failures.append(Failure("crash", f"{where}: {type(e).__name__}: {e}"))
            break
        # invariants over the live units: no entry of a managed field is None or dead, and the closure of the facts
        # asserted among live units is present in their fields
        bad = None
        have = set()
        for u in live:
            for f in ("part_of", "has_part", "directly_part_of"):
                for e in list(getattr(u, f)):
                    e = e() if isinstance(e, weakref.ref) else e
                    if e is None:
                        bad = f"{u.name}.{f} contains None (an entry for an instance that no longer exists)"
                    else:
                        have.add((id(u), f, id(e)))
        if bad:
            res.failures.append(Failure("dead-entry-in-field", f"{where}: {bad}"))
            break
        exp, _ = closure(asserted, _O.FIELDS, _O.ROLE_TAKER_FIELD, TransitiveProperty, HasInverseProperty)
        # giving up a relation (field = []) is a retraction, whose effect on inferred facts is not defined; histories
        # with a retraction are only checked for crashes and dead entries
        if not exp <= have and not any(o.startswith("clear") for o in seq[:i + 1]):
            names = {id(u): u.name for u in live}
            lack = sorted((names.get(a, "?"), f, names.get(b, "?")) for a, f, b in exp - have)
            res.failures.append(Failure("missing-inference", f"{where}: fields of the live units lack {lack}"))
            break
        states.append((len(live), len(SymbolGraph().wrapped_instances), len(have), op))
    res.states = states
    res.outcome_key = ("units", tuple(states[-1:]))
    res.features = ["units"] + (["units:survivor-after-death"] if died and live else [])
    if died:
        res.nontrivial_key = case
    live.clear()
    asserted = []
    gc.collect()
    gc.freeze()
    return res


def admissible(pre):
    np = nc = ne = 0
    for op in pre:
        if op == "newP":
            np += 1
        elif op == "newC":
            nc += 1
        elif op == "newE":
            if np == 0:
                return False
            ne += 1
        elif op in ("rel_w", "rel_m", "rel_s"):
            if np == 0 or nc == 0:
                return False
        elif op == "rel_h":
            if ne == 0 or nc == 0:
                return False
        elif op.startswith("drop"):
            if np + nc + ne == 0:
                return False
            # conservative: we do not track which kind is dropped; executing a relate op on a missing kind is skipped at run time
    return True


_O = None
_REF = {}


def init_worker():
    global _O
    from models import onto
    _O = onto
    gc.collect()
    gc.freeze()


def facts_about(objs):
    """relations in the graph and field contents, restricted to the given (named) objects"""
    from krrood.entity_query_language.symbol_graph import SymbolGraph
    names = {id(o): n for n, o in objs.items()}
    rel = set()
    for r in SymbolGraph().relations():
        s, t = r.source.instance, r.target.instance
        if s is not None and t is not None and (id(s) in names or id(t) in names):
            rel.add((names.get(id(s), "<foreign>"), r.wrapped_field.public_name, names.get(id(t), "<foreign>")))
    fld = set()
    for n, o in objs.items():
        for (cls, f), (d, single) in _O.FIELDS.items():
            if isinstance(o, cls):
                v = getattr(o, f)
                vals = ([v] if v is not None else []) if single else [e() if isinstance(e, weakref.ref) else e for e in list(v)]
                for e in vals:
                    if e is not None:
                        fld.add((n, f, names.get(id(e), "<foreign>")))
    return rel, fld


def run_suffix(suf):
    order, asserts = suf
    objs = {}
    for ch in order:
        if ch == "P":
            objs["p"] = _O.VPerson("sp")
        elif ch == "C":
            objs["c"] = _O.VCompany("sc")
        elif ch == "E":
            objs["e"] = _O.VCEO(objs["p"])
    if "c2" not in objs and any(a == "h2" for a in asserts):
        objs["c2"] = _O.VCompany("sc2")
    asserted = []
    for a in asserts:
        p, c = objs["p"], objs["c"]
        if a == "sweep":
            from krrood.entity_query_language.symbol_graph import SymbolGraph
            SymbolGraph().remove_dead_instances()
        elif a == "w":
            p.works_for = c
            asserted.append((p, "works_for", c))
        elif a == "m":
            p.member_of.append(c)
            asserted.append((p, "member_of", c))
        elif a == "s":
            c.members.add(p)
            asserted.append((c, "members", p))
        elif a == "h":
            objs["e"].head_of = c
            asserted.append((objs["e"], "head_of", c))
        elif a == "h2":
            # the CEO heads the same company the person works for (no single-valued conflict)
            objs["e"].head_of = c
            asserted.append((objs["e"], "head_of", c))
    return objs, asserted


def reference_for(suf):
    if suf not in _REF:
        _O.reset_graph()
        objs, asserted = run_suffix(suf)
        rel, fld = facts_about(objs)
        from oracles.closure import closure
        from krrood.ontomatic.property_descriptor.mixins import HasInverseProperty, TransitiveProperty
        names = {id(o): n for n, o in objs.items()}
        cl, _ = closure(asserted, _O.FIELDS, _O.ROLE_TAKER_FIELD, TransitiveProperty, HasInverseProperty)
        cl = {(names[s], f, names[t]) for s, f, t in cl}
        _REF[suf] = (rel, fld, cl)
    return _REF[suf]


_ADV = [None]
_HOOKED = [False]


def hook_births():
    """stamp the birth of every Symbol instance for the identity adversary: krrood registers an instance in
    Symbol.__new__ through the module-level function update_cache, which the harness wraps (no source change)"""
    if _HOOKED[0]:
        return
    _HOOKED[0] = True
    from krrood.entity_query_language import predicate as P
    orig = P.update_cache

    def update_cache(instance):
        if _ADV[0] is not None:
            _ADV[0].born(instance)
        return orig(instance)
    P.update_cache = update_cache


def run_case(case):
    if case[0] == "units":
        return run_units(case)
    if case[0] == "units@recycled":
        hook_births()
        _ADV[0] = idadv.IdAdversary(recycle=True)
        try:
            with idadv.installed(_ADV[0]):
                res = run_units(("units", case[1]), " [identities of dead instances are reused at once]")
            if res.nontrivial_key is not None:
                res.nontrivial_key = case
            return res
        finally:
            _ADV[0] = None
    if len(case) == 4:
        hook_births()
        _ADV[0] = idadv.IdAdversary(recycle=True)
        try:
            with idadv.installed(_ADV[0]):
                res = run_case_inner(case[:3], " [identities of dead instances are reused at once]")
            if _ADV[0].recycled:
                res.features = list(res.features or ()) + ["identity-recycled"]
            return res
        finally:
            _ADV[0] = None
    return run_case_inner(case, "")


def run_case_inner(case, note):
    from krrood.entity_query_language.symbol_graph import SymbolGraph
    pre, final_sweep, suf = case
    res = CaseResult()
    ref_rel, ref_fld, ref_closure = reference_for(suf)
    if ref_rel != ref_closure or ref_fld != ref_closure:
        # the fresh-graph behaviour itself is wrong: C15's subject, report once per suffix
        res.failures.append(Failure("fresh-graph-not-closure", f"suffix {suf} on a cleared graph: relations {sorted(ref_rel)}, "
                                                               f"fields {sorted(ref_fld)}, closure {sorted(ref_closure)}"))
        return res
    _O.reset_graph()
    live = []  # (kind, obj)
    swept_related = False
    related = set()
    states = []
    n = 0
    try:
        for op in pre:
            res.transitions += 1
            n += 1
            ps = [o for k, o in live if k == "P"]
            cs = [o for k, o in live if k == "C"]
            es = [o for k, o in live if k == "E"]
            if op == "newP":
                live.append(("P", _O.VPerson(f"p{n}")))
            elif op == "newC":
                live.append(("C", _O.VCompany(f"c{n}")))
            elif op == "newE":
                if ps:
                    live.append(("E", _O.VCEO(ps[-1])))
            elif op in ("rel_w", "rel_m", "rel_s") and ps and cs:
                p, c = ps[-1], cs[-1]
                if op == "rel_w":
                    if p.works_for is None:
                        p.works_for = c
                elif op == "rel_m":
                    p.member_of.append(c)
                else:
                    c.members.add(p)
                related.add(id(p))
                related.add(id(c))
            elif op == "rel_h" and es and cs:
                if es[-1].head_of is None and (es[-1].person.works_for is None or es[-1].person.works_for is cs[-1]):
                    es[-1].head_of = cs[-1]
                    related.add(id(es[-1]))
            elif op in ("drop_old", "drop_new") and live:
                k, o = live.pop(0 if op == "drop_old" else -1)
                r = weakref.ref(o)
                was_related = id(o) in related
                del o, ps, cs, es
                if r() is not None:
                    gc.collect()
            elif op == "sweep":
                before = len(SymbolGraph().wrapped_instances)
                SymbolGraph().remove_dead_instances()
                if len(SymbolGraph().wrapped_instances) < before and related:
                    swept_related = True
            ps = cs = es = None
            states.append((len(SymbolGraph().wrapped_instances), len(list(SymbolGraph().relations())), op))
    except Exception as e:
        # every prefix operation is a legal assertion on live objects; the same operation succeeds on a fresh graph
        res.failures.append(Failure("crash", f"prefix {pre}{note}: operation #{n} ({op}) raised {type(e).__name__}: {e}"))
        ps = cs = es = None
        live.clear()
        gc.freeze()
        return res
    # close the prefix: every prefix object dies
    had_objects = bool(live)
    refs = [weakref.ref(o) for k, o in live]
    live.clear()
    gc.collect()
    if any(r() is not None for r in refs):
        res.features = ["prefix-object-survived(held by krrood)"]
    if final_sweep:
        before = len(SymbolGraph().wrapped_instances)
        SymbolGraph().remove_dead_instances()
        if len(SymbolGraph().wrapped_instances) < before and related:
            swept_related = True
    try:
        objs, asserted = run_suffix(suf)
        rel, fld = facts_about(objs)
    except Exception as e:
        res.failures.append(Failure("crash", f"prefix {pre} (final sweep {final_sweep}){note} then suffix {suf}: {type(e).__name__}: {e}"))
        gc.freeze()
        return res
    states.append((len(SymbolGraph().wrapped_instances), "suffix"))
    res.states = states
    res.outcome_key = (tuple(sorted(rel)), tuple(sorted(fld)))
    res.features = list(res.features) + ["swept-related" if swept_related else "no-related-sweep"]
    if swept_related:
        res.nontrivial_key = case
    if rel != ref_rel:
        res.failures.append(Failure("relations-differ-from-fresh-graph",
                                    f"prefix {pre} (final sweep {final_sweep}){note} then suffix {suf}: graph lacks "
                                    f"{sorted(ref_rel - rel)}, has extra {sorted(rel - ref_rel)}"))
    elif fld != ref_fld:
        res.failures.append(Failure("fields-differ-from-fresh-graph",
                                    f"prefix {pre} (final sweep {final_sweep}){note} then suffix {suf}: fields lack "
                                    f"{sorted(ref_fld - fld)}, extra {sorted(fld - ref_fld)}"))
    elif swept_related and len(pre) >= 3:
        res.sample = {"prefix": list(pre), "final_sweep": final_sweep, "suffix": [suf[0], list(suf[1])],
                      "facts": sorted(map(list, rel))}
    del objs, asserted
    gc.freeze()
    return res


def finish(run):
    if run.exhaustive and not run.failures:
        if not run.features.get("swept-related"):
            raise HarnessError("vacuous: no prefix swept a related instance")
        if not run.features.get("identity-recycled"):
            raise HarnessError("vacuous: the identity adversary never recycled an identity")


def classify(case, failure):
    return None


def cluster_key(case, f):
    return (f.kind, case[2] if case[0] not in ("units", "units@recycled") else f.detail.split(": ", 1)[-1][:60])


def repro(case):
    return f"""# C14 replay
import sys; sys.path.insert(0, '/verif')
from checks import c14
c14.init_worker()
for f in c14.run_case({case!r}).failures: print(f.kind, f.detail)
"""


def _m_relation_index_by_id():
    from krrood.entity_query_language import symbol_graph as G
    seen = {}
    def relation_exists(self, relation):
        key = (id(relation.source.instance), id(relation.target.instance), relation.wrapped_field.public_name)
        return key in seen.setdefault(id(self), set())
    orig_add = G.SymbolGraph.add_relation
    def add_relation(self, relation):
        if self.relation_exists(relation):
            return False
        seen.setdefault(id(self), set()).add(
            (id(relation.source.instance), id(relation.target.instance), relation.wrapped_field.public_name))
        self._instance_graph.add_edge(relation.source.index, relation.target.index, relation)
        return True
    G.SymbolGraph.relation_exists = relation_exists
    G.SymbolGraph.add_relation = add_relation


def _m_remove_node_keeps_relation_index():
    from krrood.entity_query_language import symbol_graph as G
    def remove_node(self, wrapped_instance):
        self._instance_index.pop(id(wrapped_instance.instance), None)
        self._class_to_wrapped_instances[wrapped_instance.instance_type].remove(wrapped_instance)
        self._instance_graph.remove_node(wrapped_instance.index)
    G.SymbolGraph.remove_node = remove_node


# relation_index_by_id is kept for reference but not registered: whether CPython hands a freed address to the next
# instance depends on allocator state the harness does not control, so it is not reliably detectable.
MUTANTS = {"remove_node_keeps_relation_index": _m_remove_node_keeps_relation_index}


def apply_mutant(name):
    MUTANTS[name]()
