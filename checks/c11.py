"""
C11 - pattern matching is equivalent to the explicit query it abbreviates.

E1: every pattern entity_matching(Box, dom)(tag=?, main=?, items=?) where each slot is absent or one constraint from the
slot's alphabet (literal, literal list, nested match one, two and three levels deep, subclass match, match_any / match_all over
every non-empty sub-list of a 3-item universe, and the select twin of each), over a domain that contains one box per
distinct (tag, main, items) valuation PLUS a twin with equal attribute values, plus non-Box elements.
"""
from __future__ import annotations

import itertools

from mc.core import CaseResult, Failure, HarnessError

PROPERTY = "C11"
LEVEL = "exploration"
RULE = ("all patterns over 3 slots (tag: literal | literal list; main: literal | nested match | subclass match | two-level "
        "nested match | select twins incl. selects two and three levels below the root pattern; items: literal element | match_any(L) | match_all(L) for every non-empty sub-list "
        "and both orders of pairs | nested match on the collection | subclass match | select twins), every combination "
        "of slots, evaluated over 234 boxes (every attribute valuation twice) + foreign elements; expected = the boxes "
        "satisfying a direct Python predicate, compared as identity sets; selected parts must be the matched box's own "
        "attribute values. non-trivial = patterns with at least one constraint that accepts some and rejects some boxes")
ASSUMPTIONS = ["a literal list on a collection attribute (neither match_any nor match_all) is outside the statement",
               "results are compared as sets of elements (multiplicity of a box matched through several elements is C02's subject)"]
BOUNDS = {"quick": {"slots": 3, "items_universe": 3, "items_len": 2}, "thorough": {"slots": 3, "items_universe": 3, "items_len": 3}}
CHUNK = 8
RECYCLE_CHUNKS = 6
BUDGET_S = {"quick": 900, "thorough": 6000}

TAG = [None, ("lit", 1), ("litlist", (1, 3)), ("litlist", (2,))]
MAIN = [None, ("lit", "i1"), ("match", "MItem", 1), ("match", "MSubItem", 1), ("match_sub", "MSubItem"), ("match2", 2),
        ("select", "MItem", 1), ("select_sub", "MSubItem"),
        # a select two levels below the root pattern, under a match and under another select
        ("match_select2", 2), ("match_select2", 1), ("select_select2", 2),
        # ... and three levels below it
        ("match_select3", 7), ("select_select3", 8),
        # a nested match asking for a class that is unrelated to the declared type of the attribute: nothing is of that type
        ("match", "MPart", 1)]
SUBLISTS = [("i1",), ("i2",), ("i3",), ("i1", "i2"), ("i2", "i1"), ("i1", "i3"), ("i2", "i3"), ("i1", "i2", "i3")]
ITEMS = ([None, ("lit", "i3"), ("lit", "i1")] + [("any", L) for L in SUBLISTS] + [("all", L) for L in SUBLISTS]
         + [("match", "MItem", 1), ("match", "MItem", 2), ("match", "MSubItem", 1), ("match", "MSubItem", 2),
            ("match_sub", "MSubItem"), ("select", "MItem", 1), ("select", "MSubItem", 1)]
         + [("select_any", L) for L in SUBLISTS[:4]] + [("select_all", L) for L in SUBLISTS[3:5]]
         # empty literal lists: no element can be common with nothing; the same set of elements as nothing is nothing
         + [("any", ()), ("all", ())]
         + [("match", "MPart", 1)])
# a collection of builtin values (labels derived from the tag: 1 -> [x, y], 2 -> [y], 3 -> [])
LABELS = [("lit", "x"), ("lit", "y"), ("any", ("x",)), ("any", ("x", "z")), ("any", ("z",)), ("all", ("y",)), ("all", ("y", "x")),
          ("all", ())]
LABELS_OF_TAG = {1: ["x", "y"], 2: ["y"], 3: []}


def cases(tier, seed):
    out = []
    for t, m, i in itertools.product(TAG, MAIN, ITEMS):
        if t is None and m is None and i is None:
            continue
        out.append((t, m, i))
    for t in TAG:
        for l in LABELS:
            out.append((t, None, None, l))
    return out


_M = None
_WORLD = None


def init_worker():
    global _M, _WORLD
    from models import matchmodel as M
    from krrood.entity_query_language.symbol_graph import SymbolGraph
    _M = M
    SymbolGraph().clear()
    SymbolGraph()
    pA, pB = M.MPart(1, "pA", M.MCore(7, "cA")), M.MPart(2, "pB", M.MCore(8, "cB"))
    it = {"i1": M.MItem(1, pA, "i1"), "i2": M.MSubItem(2, pB, "i2"), "i3": M.MItem(1, pB, "i3"),
          "i4": M.MSubItem(1, pA, "i4")}
    names = list(it)
    lists = [()] + [(a,) for a in names] + [(a, b) for a in names for b in names]
    boxes = []
    for tag in (1, 2, 3):
        for main in names:
            for L in lists:
                for twin in ("", "'"):
                    boxes.append(M.MBox(tag, it[main], [it[n] for n in L], f"b{tag}{main}[{','.join(L)}]{twin}",
                                        list(LABELS_OF_TAG[tag])))
    dom = []
    for n, b in enumerate(boxes):
        dom.append(b)
        if n % 40 == 0:
            dom.append(it[names[n % 4]])  # foreign elements that must be filtered out
    _WORLD = (it, boxes, dom, (pA, pB))


def predicate(case):
    it = _WORLD[0]
    t, m, i = case[:3]
    l = case[3] if len(case) > 3 else None
    M = _M

    def ok(b):
        if l is not None:
            if l[0] == "lit" and l[1] not in b.labels:
                return False
            if l[0] == "any" and not any(v in b.labels for v in l[1]):
                return False
            if l[0] == "all" and set(b.labels) != set(l[1]):
                return False
        if t is not None:
            if t[0] == "lit" and not b.tag == t[1]:
                return False
            if t[0] == "litlist" and b.tag not in t[1]:
                return False
        if m is not None:
            k = m[0]
            if k == "lit" and b.main is not it[m[1]]:
                return False
            if k in ("match", "select") and not (isinstance(b.main, getattr(M, m[1])) and b.main.k == m[2]):
                return False
            if k in ("match_sub", "select_sub") and not isinstance(b.main, M.MSubItem):
                return False
            if k in ("match2", "match_select2", "select_select2") and not (b.main.sub.k == m[1]):
                return False
            if k in ("match_select3", "select_select3") and not (b.main.sub.core.k == m[1]):
                return False
        if i is not None:
            k = i[0]
            if k == "lit" and not any(e is it[i[1]] for e in b.items):
                return False
            if k in ("any", "select_any") and not any(e is it[n] for e in b.items for n in i[1]):
                return False
            if k in ("all", "select_all") and {id(e) for e in b.items} != {id(it[n]) for n in i[1]}:
                return False
            if k in ("match", "select") and not any(isinstance(e, getattr(M, i[1])) and e.k == i[2] for e in b.items):
                return False
            if k == "match_sub" and not any(isinstance(e, M.MSubItem) for e in b.items):
                return False
        return True
    return ok


def build(case):
    from krrood.entity_query_language.match import (match, match_any, match_all, select, select_any, select_all,
                                                    entity_matching, entity_selection)
    from krrood.entity_query_language.quantify_entity import an
    it, boxes, dom, parts = _WORLD
    M = _M
    t, m, i = case[:3]
    kw = {}
    selects = {}

    if t is not None:
        kw["tag"] = t[1] if t[0] == "lit" else list(t[1])
    if m is not None:
        k = m[0]
        if k == "lit":
            kw["main"] = it[m[1]]
        elif k == "match":
            kw["main"] = match(getattr(M, m[1]))(k=m[2])
        elif k == "match_sub":
            kw["main"] = match(getattr(M, m[1]))()
        elif k == "match2":
            kw["main"] = match(M.MItem)(sub=match(M.MPart)(k=m[1]))
        elif k == "select":
            selects["main"] = select(getattr(M, m[1]))
            kw["main"] = selects["main"](k=m[2])
        elif k == "select_sub":
            selects["main"] = select(getattr(M, m[1]))
            kw["main"] = selects["main"]()
        elif k == "match_select2":
            selects["main.sub"] = select(M.MPart)
            kw["main"] = match(M.MItem)(sub=selects["main.sub"](k=m[1]))
        elif k == "select_select2":
            selects["main"] = select(M.MItem)
            selects["main.sub"] = select(M.MPart)
            kw["main"] = selects["main"](sub=selects["main.sub"](k=m[1]))
        elif k == "match_select3":
            selects["main.sub.core"] = select(M.MCore)
            kw["main"] = match(M.MItem)(sub=match(M.MPart)(core=selects["main.sub.core"](k=m[1])))
        elif k == "select_select3":
            selects["main.sub"] = select(M.MPart)
            selects["main.sub.core"] = select(M.MCore)
            kw["main"] = match(M.MItem)(sub=selects["main.sub"](core=selects["main.sub.core"](k=m[1])))
    if i is not None:
        k = i[0]
        if k == "lit":
            kw["items"] = it[i[1]]
        elif k == "any":
            kw["items"] = match_any([it[n] for n in i[1]])
        elif k == "all":
            kw["items"] = match_all([it[n] for n in i[1]])
        elif k == "match":
            kw["items"] = match(getattr(M, i[1]))(k=i[2])
        elif k == "match_sub":
            kw["items"] = match(getattr(M, i[1]))()
        elif k == "select":
            selects["items"] = select(getattr(M, i[1]))
            kw["items"] = selects["items"](k=i[2])
        elif k == "select_any":
            selects["items"] = select_any([it[n] for n in i[1]])
            kw["items"] = selects["items"]
        elif k == "select_all":
            selects["items"] = select_all([it[n] for n in i[1]])
            kw["items"] = selects["items"]
    if len(case) > 3:
        l = case[3]
        kw["labels"] = l[1] if l[0] == "lit" else match_any(list(l[1])) if l[0] == "any" else match_all(list(l[1]))
    if selects:
        root = entity_selection(M.MBox, list(dom))
    else:
        root = entity_matching(M.MBox, list(dom))
    return an(root(**kw)), root, selects


def run_case(case):
    res = CaseResult()
    it, boxes, dom, parts = _WORLD
    ok = predicate(case)
    exp = {id(b): b for b in boxes if ok(b)}
    label = f"pattern tag={case[0]} main={case[1]} items={case[2]}" + (f" labels={case[3]}" if len(case) > 3 else "")
    try:
        q, root, selects = build(case)
        rows = list(q.evaluate())
    except Exception as e:
        res.failures.append(Failure("crash", f"{label}: {type(e).__name__}: {e}"))
        return res
    got = {}
    bad_parts = []
    for r in rows:
        if selects:
            try:
                b = r[root]
            except (TypeError, KeyError):
                res.failures.append(Failure("inconsistent-selected-part", f"{label}: the pattern selects {sorted(selects)} but an answer "
                                                                          f"is {repr(r)[:60]} instead of a binding of the selected variables"))
                break
            for slot, s in selects.items():
                try:
                    part = r[s]
                except KeyError:
                    bad_parts.append((b.name, slot, "<the selected part is not in the result>"))
                    continue
                own = b
                for step in slot.split("."):
                    own = getattr(own, step)
                if slot == "items":
                    # a selected collection attribute is reported as the collection itself or as one of its elements
                    if part is not own and not any(part is e for e in own):
                        bad_parts.append((b.name, slot, repr(part)[:40]))
                elif part is not own:
                    bad_parts.append((b.name, slot, repr(part)[:40]))
        else:
            b = r
        got[id(b)] = b
    res.outcome_key = tuple(sorted(b.name for b in got.values()))
    if 0 < len(exp) < len(boxes):
        res.nontrivial_key = case
    feats = set()
    for slot, c in zip(("tag", "main", "items", "labels"), case):
        if c is not None:
            feats.add(f"{slot}:{c[0]}")
    res.features = feats
    missing = [exp[k].name for k in exp if k not in got]
    extra = [got[k].name if hasattr(got[k], "name") else repr(got[k]) for k in got if k not in exp]
    if extra:
        res.failures.append(Failure("unexpected-element", f"{label}: returned {extra[:5]} which do not satisfy the pattern ({len(extra)} in total)"))
    if missing:
        res.failures.append(Failure("missing-element", f"{label}: {missing[:6]} satisfy the pattern but are missing ({len(missing)} of {len(exp)})"))
    if bad_parts:
        res.failures.append(Failure("inconsistent-selected-part", f"{label}: selected parts are not the matched element's own attribute: {bad_parts[:3]}"))
    if not res.failures and res.nontrivial_key:
        res.sample = {"pattern": label, "matching_boxes": len(exp), "of": len(boxes)}
    return res


def existential_slot(case):
    """the existential constraint is the pattern's only (hence root) condition: only then is it evaluated once for all
    domain elements, which is when its value-based de-duplication crosses elements"""
    if len(case) > 3:
        return case[0] is None and case[3][0] == "any"
    return case[0] is None and case[1] is None and case[2] is not None and case[2][0] in ("any", "select_any")


def classify(case, failure):
    if failure.kind == "missing-element" and existential_slot(case):
        return "C11/existential-dedup-by-value/missing-element"
    return None


def cluster_key(case, f):
    return tuple(c[0] if c else None for c in case)


def finish(run):
    if run.exhaustive and not run.failures:
        for k in ("items:any", "items:all", "main:match2", "main:select", "tag:litlist", "main:match_select2", "main:select_select2", "main:match_select3",
                  "main:select_select3", "labels:any", "labels:all", "labels:lit"):
            if not run.features.get(k):
                raise HarnessError("vacuous: " + k)


def repro(case):
    return f"""# C11 replay
import sys; sys.path.insert(0, '/verif')
from checks import c11
c11.init_worker()
for f in c11.run_case({case!r}).failures: print(f.kind, f.detail)
"""


def _m_contains_in_swapped():
    from krrood.entity_query_language import match as Mt
    from krrood.entity_query_language.entity import contains, in_, flatten, exists
    orig = Mt.AttributeAssignment.infer_condition_between_attribute_and_assigned_value
    def patched(self):
        if self.attr._is_iterable_ and not self.is_iterable_value:
            return in_(self.attr, self.assigned_variable)
        return orig(self)
    Mt.AttributeAssignment.infer_condition_between_attribute_and_assigned_value = patched


def _m_universal_ignored():
    from krrood.entity_query_language import match as Mt
    def match_all(type_=None):
        return Mt.match(type_)
    Mt.match_all = match_all
    import checks.c11 as me


def _m_type_filter_dropped():
    from krrood.entity_query_language import match as Mt
    Mt.AttributeAssignment.is_type_filter_needed = property(lambda self: False)


MUTANTS = {"contains_in_swapped": _m_contains_in_swapped, "universal_ignored": _m_universal_ignored,
           "type_filter_dropped": _m_type_filter_dropped}


def apply_mutant(name):
    MUTANTS[name]()
