"""
C03 - evaluations are repeatable and do not interfere with each other.

E3: for scenarios of query objects that share variables / sub-expressions / the same query object, ALL interleavings
of the per-iterator programs  start . next^j . (run to StopIteration | close | drop) [. start . drain]  are executed on
freshly built real queries; every evaluation in every schedule must produce what the same evaluation produces alone
on a freshly built identical query (a prefix of it when abandoned).
"""
from __future__ import annotations

import itertools
from dataclasses import dataclass

from mc.core import CaseResult, Failure, HarnessError
from mc import schedule as S
from models import eqlworld as W

PROPERTY = "C03"
LEVEL = "model_checking"
RULE = ("scenarios S1..S9 (one query evaluated twice; two queries sharing a variable / a condition sub-expression (one "
        "under not_) / both variables / a nested sub-query; domain-less variables; a rule query re-evaluated; a rule "
        "query and a plain query sharing variables) x list and one-shot generator domains x every pair of per-iterator "
        "programs x EVERY interleaving of their steps (three iterators: every interleaving with <=2 preemptions); "
        "state = (scenario, per-iterator positions); oracle = isolated run of the same evaluation on a fresh identical "
        "query. non-trivial = schedules with at least one preemption or a re-evaluation")
ASSUMPTIONS = ["results are compared as sequences (objects by name); an abandoned evaluation must have produced a prefix",
               "a failure is only believed after the same schedule reproduced the same observations on a second fresh build"]
BOUNDS = {"quick": {"iterators": 2, "results_per_query": "2-5", "restarts": 1, "preemption_bound_5_result_rule_scenarios": 3},
          "thorough": {"iterators": 3, "preemption_bound_3_iterators": 2, "restarts": 1,
                       "preemption_bound_5_result_rule_scenarios": 3}}
# scenarios whose queries have five results: all interleavings with at most this many preemptions (switches away from an
# iterator that still has steps left); every other two-iterator scenario is explored without a bound
PREEMPTION_BOUND = {"S16_rule_with_alternative_and_next_twice": 3, "S17_rule_with_next_and_plain_sharing_variable": 3}
CHUNK = 6
RECYCLE_CHUNKS = 8
BUDGET_S = {"quick": 900, "thorough": 8000}


CONSTRUCTED = []  # every inferred object that is constructed, in order: the side effects of evaluating a rule query


@dataclass(eq=False)
class Out:
    tag: int
    p: object = None

    def __post_init__(self):
        CONSTRUCTED.append(f"Out{self.tag}:{getattr(self.p, 'name', self.p)}")

    def __repr__(self):
        return f"Out({self.tag},{self.p})"


SPEC = [("P00", 0, 0, False), ("P01", 0, 1, False), ("P10", 1, 0, True), ("P11", 1, 1, False)]


def make_domains(kind, falsy=False):
    items = W.make_items(SPEC, falsy=falsy)
    if kind == "list":
        return items, (lambda: list(items))
    return items, (lambda: (i for i in items))


def scenario(name, kind):
    """returns (targets, render) built from FRESH krrood objects"""
    from krrood.entity_query_language.entity import entity, set_of, let, and_, or_, not_, inference
    from krrood.entity_query_language.quantify_entity import an
    from krrood.entity_query_language.conclusion import Add
    from krrood.entity_query_language.rule import refinement, alternative
    items, dom = make_domains(kind)
    ent = lambda t, r: r.name if hasattr(r, "name") else repr(r)
    if name == "S1_same_query_twice":
        x = let(W.Item, dom(), name="x")
        q = an(entity(x, x.a == 0))
        return [q, q], ent
    if name == "S2_shared_variable":
        x = let(W.Item, dom(), name="x")
        return [an(entity(x, x.a == 0)), an(entity(x, x.b == 1))], ent
    if name == "S3_shared_condition_one_negated":
        x = let(W.Item, dom(), name="x")
        c = x.a == 0
        return [an(entity(x, c, x.b == 1)), an(entity(x, not_(c), x.b == 1))], ent
    if name == "S4_pair_and_single":
        x = let(W.Item, dom(), name="x")
        y = let(W.Item, dom(), name="y")
        q1 = an(set_of([x, y], x.a == y.a, x.b < y.b))
        q2 = an(entity(y, y.b == 1))
        return [q1, q2], (lambda t, r: (r[x].name, r[y].name) if t == 0 else r.name)
    if name == "S5_query_and_its_use_as_subquery":
        x = let(W.Item, dom(), name="x")
        y = let(W.Item, dom(), name="y")
        sub = an(entity(y, y.b == 1))
        q2 = an(entity(x, x.a == sub.a, x.b == 0))
        return [sub, q2], ent
    if name == "S6_two_pair_queries":
        x = let(W.Item, dom(), name="x")
        y = let(W.Item, dom(), name="y")
        q1 = an(set_of([x, y], x.a == y.a, x.b < y.b))
        q2 = an(set_of([y, x], x.a != y.a, x.b == 1, y.b == 1))
        return [q1, q2], (lambda t, r: (r[x].name, r[y].name))
    if name == "S7_domainless":
        from models import hier
        from krrood.entity_query_language.symbol_graph import SymbolGraph
        SymbolGraph().clear()
        SymbolGraph()
        keep = [hier.HA(1), hier.HB(2), hier.HD(3)]
        q1 = an(entity(let(hier.HA, None)))
        q2 = an(entity(let(hier.HB, None)))
        q1._keep_alive = keep
        return [q1, q2], (lambda t, r: f"{type(r).__name__}{r.k}")
    if name in ("S8_rule_query_twice", "S9_rule_and_plain_sharing_variable"):
        x = let(W.Item, dom(), name="x")
        v = inference(Out)()
        q = an(entity(v, x.a == 0))
        with q:
            Add(v, inference(Out)(tag=1, p=x))
            with refinement(x.b == 1):
                Add(v, inference(Out)(tag=2, p=x))
        rend = lambda t, r: (f"Out{r.tag}:{r.p.name}" if isinstance(r, Out) else r.name)
        if name == "S8_rule_query_twice":
            return [q, q], rend
        return [q, an(entity(x, x.b == 1))], rend
    if name in ("S16_rule_with_alternative_and_next_twice", "S17_rule_with_next_and_plain_sharing_variable"):
        from krrood.entity_query_language.rule import next_rule
        x = let(W.Item, dom(), name="x")
        v = inference(Out)()
        q = an(entity(v, x.a == 0))
        with q:
            Add(v, inference(Out)(tag=1, p=x))
            with alternative(x.b == 1):
                Add(v, inference(Out)(tag=2, p=x))
            with next_rule(x.b == 0):
                Add(v, inference(Out)(tag=3, p=x))
        rend = lambda t, r: (f"Out{r.tag}:{r.p.name}" if isinstance(r, Out) else r.name)
        if name.startswith("S16"):
            return [q, q], rend
        return [q, an(entity(x, x.b == 1))], rend
    if name in ("S18_count_constrained_query_twice", "S19_two_count_constrained_queries_sharing_variable"):
        # result count constraints that hold when each evaluation is counted on its own
        from krrood.entity_query_language.result_quantification_constraint import Exactly, AtMost, AtLeast, Range
        x = let(W.Item, dom(), name="x")
        if name.startswith("S18"):
            q = an(entity(x, x.a == 0), quantification=Exactly(2))
            return [q, q], ent
        return [an(entity(x, x.a == 0), quantification=Range(AtLeast(2), AtMost(2))),
                an(entity(x, x.b == 1), quantification=AtMost(2))], ent
    if name == "S11_variable_as_condition_then_compared":
        # entities whose truth value is False; the shared variable is used as a bare condition in one query and as an
        # operand of a comparison in the other
        items, dom = make_domains(kind, falsy=True)
        x = let(W.Item, dom(), name="x")
        y = let(W.Item, dom(), name="y")
        q1 = an(entity(x, and_(x.a >= 0, not_(x))))
        q2 = an(set_of([x, y], and_(x.a == y.a, x != y)))
        return [q1, q2], (lambda t, r: r.name if t == 0 else (r[x].name, r[y].name))
    if name == "S12_shared_attribute_expression":
        # ONE attribute expression object used as a condition in one query and as an operand in another
        items, dom = make_domains(kind)
        x = let(W.Item, dom(), name="x")
        flag = x.flag
        q1 = an(entity(x, and_(x.a == 0, not_(flag))))
        q2 = an(entity(x, and_(flag == True, x.a >= 0)))
        return [q1, q2], ent
    if name in ("S13_shared_attribute_root_condition_then_operand", "S14_shared_attribute_operand_then_root_condition"):
        # ONE attribute expression object: the only condition of one query, an operand of a comparison in the other;
        # the two scenarios differ in which query is BUILT first (building re-parents the shared node)
        items, dom = make_domains(kind)
        x = let(W.Item, dom(), name="x")
        flag = x.flag
        if name.startswith("S13"):
            q1 = an(entity(x, flag))
            q2 = an(entity(x, flag == False))
        else:
            q2 = an(entity(x, flag == False))
            q1 = an(entity(x, flag))
        return [q1, q2], ent
    if name == "S15_shared_comparison_root_and_operand_of_or":
        x = let(W.Item, dom(), name="x")
        c = x.a == 0
        return [an(entity(x, c)), an(entity(x, or_(c, x.b == 1)))], ent
    if name == "S10_three_queries_shared_variable":
        x = let(W.Item, dom(), name="x")
        return [an(entity(x, x.a == 0)), an(entity(x, x.b == 1)), an(entity(x, x.a == 1))], ent
    raise ValueError(name)


def reference(name):
    """what each query of the scenario returns when it is built and evaluated ALONE, computed in plain Python (the
    engine-made reference `isolated` builds the whole scenario first, and building a second query over a shared
    expression must not change the first one either); None where no independent reference is written down"""
    I = [dict(name=n, a=a, b=b, flag=bool(b)) for n, a, b, _ in SPEC]
    sel = lambda f: sorted(i["name"] for i in I if f(i))
    pairs = lambda f: sorted((i["name"], j["name"]) for i in I for j in I if f(i, j))
    if name == "S1_same_query_twice":
        return [sel(lambda i: i["a"] == 0)] * 2
    if name == "S2_shared_variable":
        return [sel(lambda i: i["a"] == 0), sel(lambda i: i["b"] == 1)]
    if name == "S3_shared_condition_one_negated":
        return [sel(lambda i: i["a"] == 0 and i["b"] == 1), sel(lambda i: i["a"] != 0 and i["b"] == 1)]
    if name == "S4_pair_and_single":
        return [pairs(lambda i, j: i["a"] == j["a"] and i["b"] < j["b"]), sel(lambda i: i["b"] == 1)]
    if name == "S6_two_pair_queries":
        return [pairs(lambda i, j: i["a"] == j["a"] and i["b"] < j["b"]),
                pairs(lambda i, j: i["a"] != j["a"] and i["b"] == 1 and j["b"] == 1)]
    if name == "S10_three_queries_shared_variable":
        return [sel(lambda i: i["a"] == 0), sel(lambda i: i["b"] == 1), sel(lambda i: i["a"] == 1)]
    if name == "S11_variable_as_condition_then_compared":
        return [sel(lambda i: i["b"] != 1), pairs(lambda i, j: i["a"] == j["a"] and i is not j)]
    if name == "S12_shared_attribute_expression":
        return [sel(lambda i: i["a"] == 0 and not i["flag"]), sel(lambda i: i["flag"] and i["a"] >= 0)]
    if name in ("S13_shared_attribute_root_condition_then_operand", "S14_shared_attribute_operand_then_root_condition"):
        return [sel(lambda i: i["flag"]), sel(lambda i: not i["flag"])]
    if name == "S15_shared_comparison_root_and_operand_of_or":
        return [sel(lambda i: i["a"] == 0), sel(lambda i: i["a"] == 0 or i["b"] == 1)]
    if name == "S18_count_constrained_query_twice":
        return [sel(lambda i: i["a"] == 0)] * 2
    if name == "S19_two_count_constrained_queries_sharing_variable":
        return [sel(lambda i: i["a"] == 0), sel(lambda i: i["b"] == 1)]
    if name in ("S16_rule_with_alternative_and_next_twice", "S17_rule_with_next_and_plain_sharing_variable"):
        # base a == 0 -> tag 1; else if b == 1 -> tag 2; next rule (always considered) b == 0 -> tag 3
        rule = sorted([f"Out1:{i['name']}" for i in I if i["a"] == 0]
                      + [f"Out2:{i['name']}" for i in I if i["a"] != 0 and i["b"] == 1]
                      + [f"Out3:{i['name']}" for i in I if i["b"] == 0])
        return [rule, rule] if name.startswith("S16") else [rule, sel(lambda i: i["b"] == 1)]
    return None


SCENARIOS = ["S1_same_query_twice", "S2_shared_variable", "S3_shared_condition_one_negated", "S4_pair_and_single",
             "S5_query_and_its_use_as_subquery", "S6_two_pair_queries", "S7_domainless", "S8_rule_query_twice",
             "S9_rule_and_plain_sharing_variable", "S11_variable_as_condition_then_compared",
             "S12_shared_attribute_expression", "S13_shared_attribute_root_condition_then_operand",
             "S14_shared_attribute_operand_then_root_condition", "S15_shared_comparison_root_and_operand_of_or",
             "S16_rule_with_alternative_and_next_twice", "S17_rule_with_next_and_plain_sharing_variable",
             "S18_count_constrained_query_twice", "S19_two_count_constrained_queries_sharing_variable"]


def isolated(name, kind, t):
    targets, render = scenario(name, kind)
    return [render(t, r) for r in targets[t].evaluate()]


def isolated_effects(name, kind, t):
    targets, render = scenario(name, kind)
    del CONSTRUCTED[:]
    list(targets[t].evaluate())
    return list(CONSTRUCTED)


def cases(tier, seed):
    out = []
    for name in SCENARIOS:
        for kind in ("list", "generator"):
            n = [len(isolated(name, kind, t)) for t in range(2)]
            p0 = S.programs(n[0])
            p1 = S.programs(n[1])
            for i, a in enumerate(p0):
                for j, b in enumerate(p1):
                    # restarts on both threads at once only in the thorough tier
                    if tier == "quick" and len(a) > n[0] + 3 and len(b) > n[1] + 3:
                        continue
                    out.append((name, kind, (a, b)))
    if tier == "thorough":
        name = "S10_three_queries_shared_variable"
        for kind in ("list", "generator"):
            n = [len(isolated(name, kind, t)) for t in range(3)]
            fam = [[p for p in S.programs(k, allow_restart=False) if ("drop",) not in p] for k in n]
            for a in fam[0]:
                for b in fam[1]:
                    for c in fam[2]:
                        out.append((name, kind, (a, b, c)))
    return out


def run_schedule(name, kind, progs, sched):
    targets, render = scenario(name, kind)
    del CONSTRUCTED[:]
    r = S.Runner(targets, render, effects=CONSTRUCTED)
    pos = [0] * len(progs)
    positions = []
    for t in sched:
        r.step(t, progs[t][pos[t]])
        pos[t] += 1
        positions.append(tuple(pos))
    return r.evals, positions


_ISO = {}
_ISO_EFFECTS = {}


def iso_effects(name, kind, t):
    k = (name, kind, t)
    if k not in _ISO_EFFECTS:
        _ISO_EFFECTS[k] = isolated_effects(name, kind, t)
    return _ISO_EFFECTS[k]


def iso(name, kind, t):
    k = (name, kind, t)
    if k not in _ISO:
        _ISO[k] = isolated(name, kind, t)
    return _ISO[k]


def judge(name, kind, evals):
    """returns list of (kind, text)"""
    bad = []
    for e in evals:
        exp = iso(name, kind, e["thread"])
        got = e["results"]
        if e["end"] == "exhausted":
            if got != exp:
                k = "incomplete-evaluation" if len(got) < len(exp) else "wrong-results"
                bad.append((k, f"evaluation #{evals.index(e)} of iterator {e['thread']} produced {got}, alone it produces {exp}"))
        else:
            if got != exp[:len(got)]:
                bad.append(("wrong-prefix", f"abandoned evaluation of iterator {e['thread']} produced {got}, "
                                            f"not a prefix of {exp}"))
        # side effects: the objects a rule query constructs while it produces its results
        from collections import Counter
        eff, exp_eff = Counter(e.get("effects", [])), Counter(iso_effects(name, kind, e["thread"]))
        if (eff != exp_eff) if e["end"] == "exhausted" else bool(eff - exp_eff):
            bad.append(("wrong-side-effects", f"evaluation #{evals.index(e)} of iterator {e['thread']} constructed "
                                              f"{sorted(e.get('effects', []))}, alone it constructs {sorted(iso_effects(name, kind, e['thread']))}"))
    return bad


def run_case(case):
    name, kind, progs = case
    res = CaseResult(evaluations=0)
    lengths = [len(p) for p in progs]
    states = set()
    first = None
    ref = reference(name)
    if ref is not None:
        for t in range(len(progs)):
            alone = sorted(iso(name, kind, t))
            if alone != ref[t]:
                first = Failure("alone-differs-from-reference",
                                f"{name}/{kind}: query #{t}, evaluated alone after all queries of the scenario were built, returns "
                                f"{alone}; built and evaluated alone it returns {ref[t]}", case=(name, kind, progs, ()))
                res.features = {"bad:alone-differs-from-reference"}
                break
    for sched in S.interleavings(lengths):
        npre = S.preemptions(sched, lengths)
        if len(progs) >= 3 and npre > BOUNDS["thorough"]["preemption_bound_3_iterators"]:
            continue
        if npre > PREEMPTION_BOUND.get(name, 99):
            continue
        res.evaluations += 1
        try:
            evals, positions = run_schedule(name, kind, progs, sched)
        except Exception as e:
            if first is None:
                first = Failure("crash", f"{name}/{kind} programs {progs} schedule {sched}: {type(e).__name__}: {e}",
                                case=(name, kind, progs, sched))
                first.sig_hint = "crash:" + type(e).__name__
            res.features = set(res.features) | {"crash:" + type(e).__name__}
            continue
        res.transitions += len(sched)
        states.update((name, p) for p in positions)
        bad = judge(name, kind, evals)
        if bad and first is None:
            # believe it only if it reproduces
            evals2, _ = run_schedule(name, kind, progs, sched)
            if [(e["results"], e["end"]) for e in evals2] != [(e["results"], e["end"]) for e in evals]:
                raise HarnessError(f"non-deterministic replay of {case} schedule {sched}")
            first = Failure(bad[0][0], f"{name}/{kind} programs {progs} schedule {sched}: " + "; ".join(b[1] for b in bad[:2]),
                            case=(name, kind, progs, sched))
        if bad:
            res.features = set(res.features) | {"bad:" + bad[0][0]}
    if first is not None:
        res.failures.append(first)
    res.states = states
    res.outcome_key = (name, kind, tuple(sorted(res.features)))
    res.nontrivial_key = case
    res.features = set(res.features) | {"scenario:" + name, "domain:" + kind}
    if first is None:
        res.sample = {"scenario": name, "domain": kind, "programs": [[a[0] for a in p] for p in progs],
                      "schedules_explored": res.evaluations}
    return res


def classify(case, failure):
    from checks import c03_findings
    return c03_findings.classify(case, failure)


def cluster_key(case, f):
    c = f.case or case
    return (c[0], c[1], f.kind)


def finish(run):
    if run.exhaustive:
        for s in SCENARIOS:
            if not run.features.get("scenario:" + s):
                raise HarnessError(f"vacuous: scenario {s} not run")


def case_from_json(j):
    def tup(x):
        return tuple(tup(i) for i in x) if isinstance(x, list) else x
    c = tup(j)
    return c[:3]


def repro(case):
    name, kind, progs = case[:3]
    sched = case[3] if len(case) > 3 else None
    return f"""# C03 replay: scenario {name}, {kind} domains, programs {progs}, schedule {sched}
import sys; sys.path.insert(0, '/verif')
from checks import c03
evals, _ = c03.run_schedule({name!r}, {kind!r}, {progs!r}, {sched!r})
for e in evals: print(e, 'alone:', c03.isolated({name!r}, {kind!r}, e['thread']))
"""


# ---- mutants ---------------------------------------------------------------------------------------
def _m_old_domain_iteration():
    from krrood.entity_query_language import hashed_data as H
    def __iter__(self):
        yield from list(self.values.values())
        for v in self.iterable:
            self.values[v.id_] = v
            yield v
    H.HashedIterable.__iter__ = __iter__


def _m_quantifier_counts_across_evaluations():
    from krrood.entity_query_language import symbolic as Sy
    orig = Sy.ResultQuantifier._evaluate__
    def patched(self, sources=None, parent=None):
        n = self.__dict__.get("_seen_total", 0)
        for r in orig(self, sources, parent):
            n += 1
            self.__dict__["_seen_total"] = n
            if n > 5:
                return
            yield r
    Sy.ResultQuantifier._evaluate__ = patched


def _m_cache_after_yield():
    from krrood.entity_query_language import hashed_data as H
    def __iter__(self):
        source = iter(self.iterable)
        position = 0
        while True:
            if position < len(self.values):
                for v in list(self.values.values())[position:]:
                    position += 1
                    yield v
                continue
            try:
                v = next(source)
            except StopIteration:
                return
            position += 1
            yield v
            self.values[v.id_] = v
    H.HashedIterable.__iter__ = __iter__


def _m_never_forget_conclusions():
    from krrood.entity_query_language import symbolic as Sy
    Sy.ResultQuantifier._forget_previous_conclusions_ = lambda self: None


MUTANTS = {"old_domain_iteration": _m_old_domain_iteration,
           "quantifier_counts_across_evaluations": _m_quantifier_counts_across_evaluations,
           "cache_after_yield": _m_cache_after_yield, "never_forget_conclusions": _m_never_forget_conclusions}


def apply_mutant(name):
    MUTANTS[name]()
