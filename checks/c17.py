"""
C17 - class diagrams mirror the Python classes and derived views leave them intact.

E1 over programs x E2 over read-only operation sequences: dataclass modules are generated from a model AST over the
annotation grammar, imported, handed to ClassDiagram in every order; nodes / inheritance edges / association edges /
field classification are compared with an independent typing.get_type_hints reading; then every sequence of <=3
read-only operations is applied and the diagram's snapshot must not change.
"""
from __future__ import annotations

import itertools

from mc.core import CaseResult, Failure, HarnessError
from models import gen
from oracles import annotations as ann

PROPERTY = "C17"
LEVEL = "exploration"
RULE = ("all models with <=3 classes: every inheritance forest, every declaration order handed to ClassDiagram, a rotating "
        "scalar block (builtins, Optional, Enum, datetime, List/Set of builtins, private fields) and relation fields "
        "{X, Optional[X], List[X], Set[X], Sequence[X], Type[X]} x every target class (incl. self, forward references as "
        "strings and under `from __future__ import annotations`, two fields to one target) ; diagram snapshot vs "
        "independent annotation analysis, WrappedField predicates vs annotation kind, then all sequences of <=3 "
        "read-only operations with the snapshot re-taken after each. non-trivial = models with at least one association "
        "and one inheritance edge")
ASSUMPTIONS = ["unions other than Optional and the X | None spelling are documented as unsupported and not generated",
               "is_one_to_one_relationship is not asserted for Enum / datetime fields (the statement lists them as their own kinds)"]
BOUNDS = {"quick": {"classes": 3, "relation_fields_per_class": "<=1 (3 classes), <=2 (2 classes)", "op_sequence_len": 2},
          "thorough": {"classes": 3, "relation_fields_per_class": "<=2", "relation_fields_total_for_3_classes": "<=3", "op_sequence_len": 3}}
CHUNK = 40
RECYCLE_CHUNKS = 10
BUDGET_S = {"quick": 900, "thorough": 8000}

RELS = ["ref", "opt_ref", "list_ref", "set_ref", "seq_ref", "type_ref"]
SCALAR_BLOCKS = [
    (("n", "int", None), ("s", "opt_str", None), ("_hidden", "int", None)),
    (("color", "enum", None), ("when", "datetime", None), ("tags", "list_str", None)),
    (("maybe", "opt_enum", None), ("nums", "list_int", None), ("names", "set_str", None), ("f", "float", None)),
    (),
]
OPS = ["sub_false", "sub_true", "associations", "inheritance", "out_edges", "neighbors", "assoc_keys", "parent_map",
       "ancestors", "wrapped_classes"]


def forests(names):
    """all assignments of a base (or None) to every class without cycles"""
    out = []
    for bases in itertools.product([None] + list(names), repeat=len(names)):
        ok = True
        for n, b in zip(names, bases):
            if b == n:
                ok = False
        if not ok:
            continue
        parent = dict(zip(names, bases))
        for n in names:
            seen = set()
            cur = n
            while cur is not None:
                if cur in seen:
                    ok = False
                    break
                seen.add(cur)
                cur = parent[cur]
        if ok:
            out.append(parent)
    return out


def rel_options(names, max_fields):
    opts = [()]
    singles = [(("r1", k, t),) for k in RELS for t in names]
    opts += singles
    if max_fields >= 2:
        for k1, k2 in (("ref", "list_ref"), ("opt_ref", "opt_ref"), ("list_ref", "list_ref"), ("list_ref", "set_ref"),
                       ("ref", "type_ref")):
            for t in names:
                opts.append((("r1", k1, t), ("r2", k2, t)))
        for k1, k2 in (("opt_ref", "list_ref"), ("list_ref", "opt_ref")):
            for t1, t2 in itertools.permutations(names, 2):
                opts.append((("r1", k1, t1), ("r2", k2, t2)))
        opts.append((("r1", "ref", names[0]), ("_secret", "ref", names[-1])))
    return opts


def cases(tier, seed):
    out = []
    seq_len = BOUNDS[tier]["op_sequence_len"]
    # models
    models = []
    for ncls in (1, 2, 3):
        names = ["A", "B", "C"][:ncls]
        max_fields = 2 if (ncls <= 2 or tier == "thorough") else 1
        ropts = rel_options(names, max_fields)
        if ncls == 3 and tier == "quick":
            ropts = [o for o in ropts if not o or o[0][1] in ("ref", "opt_ref", "list_ref")]
        for parent in forests(names):
            for combo in itertools.product(ropts, repeat=ncls):
                if ncls == 3 and tier == "thorough" and sum(len(c) for c in combo) > 3:
                    continue
                classes = []
                for i, n in enumerate(names):
                    block = SCALAR_BLOCKS[(i + len(combo[0]) + len(combo[-1])) % len(SCALAR_BLOCKS)]
                    classes.append((n, parent[n], tuple(block) + tuple(combo[i])))
                models.append(tuple(classes))
    for mi, classes in enumerate(models):
        future = mi % 3 == 0
        names = [c[0] for c in classes]
        orders = list(itertools.permutations(range(len(names))))
        if len(names) == 3 and tier == "quick":
            orders = [orders[0], orders[(mi % 5) + 1]]
        # every order handed to the diagram; op sequences rotate through the models so that every sequence is used
        for oi, order in enumerate(orders):
            out.append(((future, classes), order, (mi + oi) % 1000, seq_len))
    # handwritten models with generic bases (Role[T]) and classes below them, in every hand-over order
    for si, (src, names) in enumerate(HANDWRITTEN):
        orders = list(itertools.permutations(range(len(names))))
        if tier == "quick":
            orders = orders[::5]
        for oi, order in enumerate(orders):
            out.append((("src", si), order, (si * 7 + oi) % 1000, seq_len))
    return out


HANDWRITTEN = [
    ("""
from dataclasses import dataclass, field
from typing import List, Optional
from krrood.class_diagrams.utils import Role

@dataclass(eq=False)
class P:
    n: int = 0

@dataclass(eq=False)
class Dpt:
    n: int = 0
    staff: List['E'] = field(default_factory=list)

@dataclass(eq=False)
class E(Role[P]):
    person: P = None
    department: Optional[Dpt] = None

@dataclass(eq=False)
class M(E):
    level: int = 0

@dataclass(eq=False)
class D(M):
    budget: float = 0.0
""", ("P", "Dpt", "E", "M", "D")),
    ("""
from __future__ import annotations
from dataclasses import dataclass, field
from typing import Generic, List, Optional, TypeVar
from krrood.class_diagrams.utils import Role

T = TypeVar("T")

@dataclass(eq=False)
class Box(Generic[T]):
    n: int = 0

@dataclass(eq=False)
class IntBox(Box[int]):
    m: int = 0

@dataclass(eq=False)
class SmallIntBox(IntBox):
    owner: Optional[Keeper] = None

@dataclass(eq=False)
class Keeper:
    boxes: List[IntBox] = field(default_factory=list)
""", ("Box", "IntBox", "SmallIntBox", "Keeper")),
    # several direct bases: every direct-base pair is an inheritance edge, whatever its position in __bases__
    ("""
from dataclasses import dataclass, field
from typing import List, Optional

@dataclass(eq=False)
class Veh:
    n: int = 0

@dataclass(eq=False)
class Flo:
    depth: float = 0.0

@dataclass(eq=False)
class Arm:
    guns: int = 0
    target: Optional['Veh'] = None

@dataclass(eq=False)
class Amp(Veh, Flo):
    w: int = 0

@dataclass(eq=False)
class Gun(Arm, Flo, Veh):
    escorts: List[Amp] = field(default_factory=list)
""", ("Veh", "Flo", "Arm", "Amp", "Gun")),
    # a diamond, and a class that names an ancestor again as its last direct base
    ("""
from __future__ import annotations
from dataclasses import dataclass, field
from typing import List, Optional

@dataclass(eq=False)
class Top:
    n: int = 0
    best: Optional[Bot] = None

@dataclass(eq=False)
class Le(Top):
    l: int = 0

@dataclass(eq=False)
class Ri(Top):
    r: str = ""

@dataclass(eq=False)
class Bot(Le, Ri):
    peers: List[Ri] = field(default_factory=list)

@dataclass(eq=False)
class Low(Bot, Top):
    z: float = 0.0
""", ("Top", "Le", "Ri", "Bot", "Low")),
]


def all_op_sequences(n):
    seqs = [()]
    for k in range(1, n + 1):
        seqs += list(itertools.product(OPS, repeat=k))
    return seqs


def snapshot(diagram):
    g = diagram._dependency_graph
    out = []
    for e in g.edges():
        kind = type(e).__name__
        fname = e.field.field.name if hasattr(e, "field") else None
        out.append((e.source.clazz.__name__, e.target.clazz.__name__, kind, fname))
    return sorted(out, key=repr), sorted(w.clazz.__name__ for w in diagram.wrapped_classes)


def apply_op(diagram, op, classes):
    from krrood.class_diagrams.class_diagram import Association, Inheritance
    first = classes[0]
    if op == "sub_false":
        return diagram.to_subdiagram_without_inherited_associations(False)
    if op == "sub_true":
        return diagram.to_subdiagram_without_inherited_associations(True)
    if op == "associations":
        return diagram.associations
    if op == "inheritance":
        return diagram.inheritance_relations
    if op == "out_edges":
        return [diagram.get_out_edges(c) for c in classes]
    if op == "neighbors":
        return [diagram.get_neighbors_with_relation_type(c, Association) for c in classes] + \
               [diagram.get_outgoing_neighbors_with_relation_type(c, Inheritance) for c in classes]
    if op == "assoc_keys":
        return diagram.get_assoc_keys_by_source(True)
    if op == "parent_map":
        return diagram.parent_map
    if op == "ancestors":
        return [diagram.all_ancestors(diagram.get_wrapped_class(c).index) for c in classes]
    if op == "wrapped_classes":
        return diagram.wrapped_classes
    raise ValueError(op)


def expected_subdiagram_edges(classes, include_field_name):
    """documented: association edges that are present on any ancestor of the source class are removed from descendants"""
    inh, assoc = ann.expected_diagram(classes)
    keep = set()
    for (c, fname, t) in assoc:
        ancestors = [b for b in c.__mro__[1:] if b in classes]
        redundant = False
        for a in ancestors:
            for (c2, f2, t2) in assoc:
                if c2 is a and t2 is t and (not include_field_name or f2 == fname):
                    redundant = True
        if not redundant:
            keep.add((c, fname, t))
    return inh, keep


def run_case(case):
    from krrood.class_diagrams.class_diagram import ClassDiagram
    model, order, seq_index, seq_len = case
    res = CaseResult()
    handwritten = model[0] == "src"
    try:
        if handwritten:
            mod, cls_by_name, src = gen.load_source(*HANDWRITTEN[model[1]], prefix="vsrc17")
        else:
            mod, cls_by_name, src = gen.load(model, prefix="vgen17")
    except Exception as e:
        raise HarnessError(f"generated model does not import: {e}")
    try:
        names = list(HANDWRITTEN[model[1]][1]) if handwritten else [c[0] for c in model[1]]
        classes = [cls_by_name[names[i]] for i in order]
        if handwritten:
            label = f"handwritten model #{model[1]} (classes {names}; generic bases) order={[names[i] for i in order]}"
        else:
            label = f"model {[(c[0], c[1], [(f[0], f[1], f[2]) for f in c[2] if f[1] in RELS]) for c in model[1]]} future={model[0]} order={[names[i] for i in order]}"
        try:
            d = ClassDiagram(classes)
        except Exception as e:
            res.failures.append(Failure("crash", f"{label}: ClassDiagram raised {type(e).__name__}: {e}"))
            return res
        inh, assoc = ann.expected_diagram(classes)
        exp_edges = sorted([(b.__name__, s.__name__, "Inheritance", None) for b, s in inh]
                           + [(c.__name__, t.__name__, "Association", f) for c, f, t in assoc], key=repr)
        edges, nodes = snapshot(d)
        norm = lambda es: sorted(((a, b, "Association" if k == "HasRoleTaker" else k, f) for a, b, k, f in es), key=repr)
        if nodes != sorted(c.__name__ for c in classes):
            res.failures.append(Failure("wrong-nodes", f"{label}: nodes {nodes}"))
        if norm(edges) != exp_edges:
            missing = [e for e in exp_edges if e not in norm(edges)]
            extra = [e for e in norm(edges) if e not in exp_edges]
            res.failures.append(Failure("wrong-edges", f"{label}: missing edges {missing[:4]}, unexpected edges {extra[:4]}"))
        # field classification
        for c in classes:
            info = ann.read_class(c)
            wc = d.get_wrapped_class(c)
            got_names = sorted(f.public_name for f in wc.fields)
            if got_names != sorted(info):
                res.failures.append(Failure("wrong-fields", f"{label}: class {c.__name__} has fields {got_names}, annotations give {sorted(info)}"))
                continue
            for f in wc.fields:
                i = info[f.public_name]
                try:
                    checks = [("is_optional", f.is_optional, i["optional"]),
                              ("is_container", f.is_container, i["container"]),
                              ("is_type_type", f.is_type_type, i["type_valued"]),
                              ("is_builtin_type", f.is_builtin_type, i["builtin"]),
                              ("is_enum", f.is_enum, i["enum"]),
                              ("type_endpoint", f.type_endpoint, i["endpoint"])]
                    if i["is_class_ref"]:
                        checks.append(("is_one_to_one_relationship", f.is_one_to_one_relationship, not i["container"]))
                        checks.append(("is_one_to_many_relationship", f.is_one_to_many_relationship,
                                       i["container"] and not i["optional"]))
                    if i["builtin"]:
                        checks.append(("is_one_to_one_relationship", f.is_one_to_one_relationship, False))
                        checks.append(("is_one_to_many_relationship", f.is_one_to_many_relationship, False))
                except Exception as e:
                    res.failures.append(Failure("crash", f"{label}: classifying {c.__name__}.{f.public_name} raised "
                                                         f"{type(e).__name__}: {e}"))
                    continue
                for name, got, exp in checks:
                    if got != exp:
                        res.failures.append(Failure("wrong-classification",
                                                    f"{label}: {c.__name__}.{f.public_name}: {name} is {got}, annotation says {exp}"))
        if res.failures:
            return res
        # read-only operation sequences
        seqs = all_op_sequences(seq_len)
        n_seq = len(seqs)
        # every model runs a window of sequences; together the windows cover all sequences many times
        window = [seqs[(seq_index * 7 + j) % n_seq] for j in range(4)] + [("sub_true", "sub_false")]
        base = snapshot(d)
        for seq in window:
            d2 = ClassDiagram(classes)
            for si, op in enumerate(seq):
                res.transitions += 1
                try:
                    r = apply_op(d2, op, classes)
                except Exception as e:
                    res.failures.append(Failure("crash", f"{label}: operation {op} raised {type(e).__name__}: {e}"))
                    break
                if snapshot(d2) != base:
                    lost = [e for e in base[0] if e not in snapshot(d2)[0]]
                    res.failures.append(Failure("view-mutated-source", f"{label}: after {seq[:si + 1]} the source diagram lost {lost[:4]}"))
                    break
                if op in ("sub_false", "sub_true"):
                    if r is d2 or r._dependency_graph is d2._dependency_graph:
                        res.failures.append(Failure("view-shares-graph", f"{label}: the derived diagram shares the graph object of its source"))
                        break
                    inh2, keep = expected_subdiagram_edges(classes, op == "sub_true")
                    exp2 = sorted([(b.__name__, s.__name__, "Inheritance", None) for b, s in inh2]
                                  + [(c.__name__, t.__name__, "Association", f) for c, f, t in keep], key=repr)
                    if norm(snapshot(r)[0]) != exp2:
                        got2 = norm(snapshot(r)[0])
                        res.failures.append(Failure("wrong-subdiagram", f"{label}: {op} gives edges missing {[e for e in exp2 if e not in got2][:3]} "
                                                                        f"extra {[e for e in got2 if e not in exp2][:3]}"))
                        break
            if res.failures:
                break
        res.outcome_key = (tuple(map(tuple, edges)),)
        if inh and assoc:
            res.nontrivial_key = case[:2]
        if handwritten:
            res.features = {"handwritten:%d" % model[1]}
        else:
            res.features = {"classes:%d" % len(classes), "future" if model[0] else "plain"} | {f[1] for c in model[1] for f in c[2]}
        if not res.failures and inh and assoc:
            res.sample = {"model": label, "edges": [list(e) for e in edges][:8]}
        return res
    finally:
        gen.unload(mod)


BOUNDS_SEQ = [2]


def init_worker():
    import os
    BOUNDS_SEQ[0] = 3 if os.environ.get("VERIF_TIER_INTERNAL") == "thorough" else 2


def classify(case, failure):
    return None


def cluster_key(case, f):
    return (f.kind, f.detail.split(":")[-2][-40:] if f.kind == "wrong-classification" else "")


def finish(run):
    if run.exhaustive and not run.failures:
        for k in ("seq_ref", "type_ref", "set_ref", "future", "plain", "classes:3", "handwritten:0", "handwritten:1"):
            if not run.features.get(k):
                raise HarnessError("vacuous: " + k)


def repro(case):
    return f"""# C17 replay
import sys; sys.path.insert(0, '/verif')
from checks import c17
for f in c17.run_case({case!r}).failures: print(f.kind, f.detail)
"""


def _m_shallow_copy():
    from krrood.class_diagrams import class_diagram as CD
    from copy import copy
    orig = CD.ClassDiagram.to_subdiagram_without_inherited_associations
    def patched(self, include_field_name=False):
        r = orig(self, include_field_name)
        # the derived view is built on the source's graph object
        self._dependency_graph = r._dependency_graph
        return r
    CD.ClassDiagram.to_subdiagram_without_inherited_associations = patched


def _m_mro_inheritance():
    from krrood.class_diagrams import class_diagram as CD
    def _create_inheritance_relations(self):
        for clazz in self.wrapped_classes:
            for superclass in clazz.clazz.__mro__[1:]:
                try:
                    source = self.get_wrapped_class(superclass)
                except CD.ClassIsUnMappedInClassDiagram:
                    continue
                self.add_relation(CD.Inheritance(source=source, target=clazz))
    CD.ClassDiagram._create_inheritance_relations = _create_inheritance_relations


def _m_skip_optional_association():
    from krrood.class_diagrams import wrapped_field as WF
    from functools import cached_property
    orig = WF.WrappedField.type_endpoint.func
    def type_endpoint(self):
        if self.is_optional and self.field.name == "r2":
            return type(None)
        return orig(self)
    tp = cached_property(type_endpoint)
    tp.__set_name__(WF.WrappedField, "type_endpoint")
    WF.WrappedField.type_endpoint = tp


def _m_edge_lookup_by_endpoints():
    from krrood.class_diagrams import class_diagram as CD
    def parent_map(self):
        pm = {}
        for u, v in self._dependency_graph.edge_list():
            rel = self._dependency_graph.get_edge_data(u, v)
            if isinstance(rel, CD.Inheritance):
                pm.setdefault(v, set()).add(u)
        return pm
    CD.ClassDiagram.parent_map = property(parent_map)


MUTANTS = {"shallow_copy": _m_shallow_copy, "mro_inheritance": _m_mro_inheritance,
           "skip_optional_association": _m_skip_optional_association, "edge_lookup_by_endpoints": _m_edge_lookup_by_endpoints}


def apply_mutant(name):
    MUTANTS[name]()
