"""
C20 - krrood never extends the lifetime of user objects.

E2 (stateless): all histories of create / relate / query (explicit domain, partially consumed, domain-less) / drop to a
depth, closed by dropping every user reference and collecting garbage, the whole body repeated three times in one
process. Oracle: weak-reference census, emptiness of a domain-less query, sizes of the symbol graph's containers equal
after every repetition, sizes of the process-wide expression registries; survivors are attributed by intervention
(clearing krrood's expression registries and collecting again).
"""
from __future__ import annotations

import gc
import itertools
import weakref

from mc.core import CaseResult, Failure, HarnessError
from mc import idadv

PROPERTY = "C20"
LEVEL = "model_checking"
RULE = ("all operation sequences to the stated depth over {new person, new company, relate newest pair, query with "
        "explicit domain (fully consumed), query partially consumed and abandoned, domain-less query, drop oldest}, "
        "closed by 'drop all user references; gc.collect()', body repeated 3x; after each repetition: every harness "
        "weak reference dead, domain-less query empty, symbol-graph container sizes back to the empty baseline, "
        "expression registries not grown. non-trivial = histories that relate or query objects before dropping them")
ASSUMPTIONS = ["CPython 3.12 reference counting + gc.collect()",
               "attribution by intervention: if survivors die once SymbolicExpression._id_expression_map_ and "
               "RWXNode._graph are emptied, the holder was an expression registry"]
BOUNDS = {"quick": {"depth": 5, "repetitions": 3}, "thorough": {"depth": 6, "repetitions": 3}}
CHUNK = 200
RECYCLE_CHUNKS = 5
BUDGET_S = {"quick": 900, "thorough": 8000}

OPS = ["newP", "newC", "relate", "q_explicit", "q_partial", "q_domainless", "q_domainless_partial", "drop"]
ROLE_OPS = ["newE", "relate_role", "relate_head"]  # a role (CEO of the newest person) as source and as TARGET of a relation


def cases(tier, seed):
    d = BOUNDS[tier]["depth"]
    out = []
    for k in range(1, d + 1):
        for seq in itertools.product(OPS, repeat=k):
            if "newP" not in seq and "newC" not in seq:
                continue
            out.append(seq)
    # the role pattern: one depth less, with the three role operations added
    ops2 = OPS + ROLE_OPS
    for k in range(2, d):
        for seq in itertools.product(ops2, repeat=k):
            if "newE" not in seq or "newP" not in seq:
                continue
            out.append(seq)
    # the same histories when the allocator hands the identity of every dead instance to the next instance born
    # (mc/idadv.py); the three repetitions of a history create their instances after those of the repetition before died
    for seq in list(out):
        if len(seq) <= d - 1 and ("drop" in seq or any(o.startswith("new") for o in seq)):
            out.append(("@recycled",) + seq)
    return out


_O = None


def init_worker():
    global _O
    from models import onto
    _O = onto
    gc.collect()
    gc.freeze()


def graph_sizes():
    from krrood.entity_query_language.symbol_graph import SymbolGraph
    g = SymbolGraph()
    return {
        "instance_graph_nodes": len(g._instance_graph.nodes()),
        "instance_graph_edges": len(g._instance_graph.edges()),
        "instance_index": len(g._instance_index),
        "class_to_wrapped_instances": sum(len(v) for v in g._class_to_wrapped_instances.values()),
        "relation_index": sum(len(v) for v in g._relation_index.values()),
    }


def registry_sizes():
    from krrood.entity_query_language.symbolic import SymbolicExpression
    from krrood.entity_query_language.rxnode import RWXNode
    return {"id_expression_map": len(SymbolicExpression._id_expression_map_),
            "rwx_graph_nodes": len(RWXNode._graph.nodes())}


def empty_expression_registries():
    """intervention used for attribution only"""
    from krrood.entity_query_language.symbolic import SymbolicExpression
    from krrood.entity_query_language.rxnode import RWXNode
    SymbolicExpression._id_expression_map_.clear()
    g = RWXNode._graph
    for i in list(g.node_indices()):
        g.remove_node(i)


kept_queries = []


def body(seq, rep, census, touched, related=None, states=None):
    from krrood.entity_query_language.symbol_graph import SymbolGraph
    related = related if related is not None else []
    states = states if states is not None else []
    from krrood.entity_query_language.entity import entity, let
    from krrood.entity_query_language.quantify_entity import an
    live = []
    n = 0
    for op in seq:
        n += 1
        ps = [o for k, o in live if k == "P"]
        cs = [o for k, o in live if k == "C"]
        es = [o for k, o in live if k == "E"]
        if op == "newE":
            if ps:
                o = _O.VCEO(ps[-1])
                live.append(("E", o)); census.append((f"e{rep}_{n}", weakref.ref(o)))
                related.append((f"e{rep}_{n}", ps[-1].name))
        elif op == "relate_role":
            # the role instance is the TARGET: the inverse lives on its role taker
            if es and cs:
                cs[-1].members.add(es[-1])
                ename = [nm for nm, w in census if w() is es[-1]][0]
                related.append((ename, cs[-1].name)); related.append((es[-1].person.name, cs[-1].name))
        elif op == "relate_head":
            if es and cs and es[-1].head_of is None and es[-1].person.works_for is None:
                es[-1].head_of = cs[-1]
                ename = [nm for nm, w in census if w() is es[-1]][0]
                related.append((ename, cs[-1].name)); related.append((es[-1].person.name, cs[-1].name))
        elif op == "newP":
            o = _O.VPerson(f"p{rep}_{n}")
            live.append(("P", o)); census.append((o.name, weakref.ref(o)))
        elif op == "newC":
            o = _O.VCompany(f"c{rep}_{n}")
            live.append(("C", o)); census.append((o.name, weakref.ref(o)))
        elif op == "relate":
            if ps and cs:
                ps[-1].member_of.append(cs[-1])
                related.append((ps[-1].name, cs[-1].name))
        elif op == "q_explicit":
            x = let(_O.VPerson, domain=list(ps))
            r = list(an(entity(x, x.name != "nobody")).evaluate())
            touched.update(o.name for o in ps)
            del r, x
        elif op == "q_partial":
            x = let(_O.VCompany, domain=list(cs))
            it = iter(an(entity(x, x.name != "nobody")).evaluate())
            next(it, None)
            touched.update(o.name for o in cs)
            del it, x
        elif op == "q_domainless":
            r = list(an(entity(let(_O.VPerson, None))).evaluate())
            # everything alive of that type is in the variable's domain, also what only a related object still holds
            touched.update(n for n, w in census if w() is not None and isinstance(w(), _O.VPerson))
            del r
        elif op == "q_domainless_partial":
            # one result is taken, the iterator is abandoned; the query OBJECT stays (as a module-level query would):
            # only what the query has handed out may be kept alive by krrood's registries, not what it never reached
            q = an(entity(let(_O.VPerson, None)))
            it = iter(q.evaluate())
            first = next(it, None)
            if first is not None:
                touched.add(first.name)
            del it, first
            kept_queries.append(q)
            del q
        elif op == "drop":
            if live:
                live.pop(0)
        o = ps = cs = es = None
        g = SymbolGraph()
        states.append((op, sum(1 for _, w in census if w() is not None), len(g._instance_graph.nodes()),
                       len(g._instance_graph.edges())))
    live.clear()


_ADV = [None]
_HOOKED = [False]


def hook_births():
    if _HOOKED[0]:
        return
    _HOOKED[0] = True
    from krrood.entity_query_language import predicate as P
    orig = P.update_cache

    def update_cache(instance):
        if _ADV[0] is not None:
            _ADV[0].born(instance)
        return orig(instance)
    P.update_cache = update_cache


def run_case(seq):
    if seq and seq[0] == "@recycled":
        hook_births()
        _ADV[0] = idadv.IdAdversary(recycle=True)
        try:
            with idadv.installed(_ADV[0]):
                res = run_case_inner(seq[1:], " [identities of dead instances are reused at once]")
            if _ADV[0].recycled:
                res.features = set(res.features or ()) | {"identity-recycled"}
            if res.nontrivial_key is not None:
                res.nontrivial_key = seq
            res.outcome_key = ("@recycled", res.outcome_key)
            return res
        finally:
            _ADV[0] = None
    return run_case_inner(seq, "")


def run_case_inner(seq, note):
    res = CaseResult()
    _O.reset_graph()
    gc.collect()
    base_graph = graph_sizes()
    states = []
    prev_reg = None
    reg_growth = []
    from krrood.entity_query_language.entity import entity, let
    from krrood.entity_query_language.quantify_entity import an
    for rep in range(3):
        census, touched, related = [], set(), []
        reg_before = registry_sizes()
        try:
            body(seq, rep, census, touched, related, states)
        except Exception as e:
            res.failures.append(Failure("crash", f"{seq}{note} repetition {rep}: {type(e).__name__}: {e}"))
            break
        gc.collect()
        res.transitions += len(seq)
        survivors = [n for n, r in census if r() is not None]
        del kept_queries[:]
        if survivors:
            # an object asserted to be related to a queried object is reachable from it (its managed fields)
            reach = set(touched)
            changed = True
            while changed:
                changed = False
                for a, b in related:
                    if (a in reach) != (b in reach):
                        reach |= {a, b}
                        changed = True
            untouched = [n for n in survivors if n not in reach]
            # attribution by intervention
            empty_expression_registries()
            gc.collect()
            still = [n for n, r in census if r() is not None]
            if still:
                res.failures.append(Failure("survivor-unknown-holder",
                                            f"{seq}{note} repetition {rep}: {still} still alive after all user references were "
                                            f"dropped and krrood's expression registries were emptied"))
                break
            if untouched:
                res.failures.append(Failure("survivor-never-queried",
                                            f"{seq}{note} repetition {rep}: {untouched} were never in a query's domain nor related to an object that was, yet only "
                                            f"died once the expression registries were emptied"))
                break
            res.failures.append(Failure("survivor-held-by-expression-registry",
                                        f"{seq}{note} repetition {rep}: {survivors} stayed alive after every user reference, "
                                        f"query and result was dropped; they died once SymbolicExpression._id_expression_map_ "
                                        f"and RWXNode._graph were emptied"))
            # the objects are dead now; continue with the remaining oracles
        # a domain-less query sweeps dead instances and must see nothing
        try:
            seen = (list(an(entity(let(_O.VPerson, None))).evaluate()) + list(an(entity(let(_O.VCompany, None))).evaluate())
                    + list(an(entity(let(_O.VCEO, None))).evaluate()))
        except Exception as e:
            res.failures.append(Failure("crash", f"{seq}{note} repetition {rep}: census query raised {type(e).__name__}: {e}"))
            break
        if seen:
            res.failures.append(Failure("dead-instance-visible", f"{seq}{note} repetition {rep}: domain-less variables still range "
                                                                 f"over {seen}"))
            break
        del seen
        gs = graph_sizes()
        states.append(tuple(gs.values()))
        if gs != base_graph:
            grown = {k: (base_graph[k], v) for k, v in gs.items() if v != base_graph[k]}
            res.failures.append(Failure("bookkeeping-left-behind:" + "+".join(sorted(grown)),
                                        f"{seq}{note} repetition {rep}: symbol graph containers (empty baseline, now): {grown}"))
            break
        reg_after = registry_sizes()
        reg_growth.append({k: reg_after[k] - reg_before[k] for k in reg_after})
    if not any(f.kind.startswith(("crash", "survivor-unknown", "survivor-never", "dead-", "bookkeeping")) for f in res.failures):
        if reg_growth and any(v > 0 for v in reg_growth[-1].values()) and not any(
                f.kind == "survivor-held-by-expression-registry" for f in res.failures):
            res.failures.append(Failure("expression-registry-growth",
                                        f"{seq}: every repetition leaves {reg_growth[-1]} more entries in the process-wide "
                                        f"expression registries"))
    res.states = states
    res.outcome_key = (tuple(states), tuple(sorted(f.kind for f in res.failures)))
    if "relate" in seq or any(o.startswith("q_") for o in seq):
        res.nontrivial_key = seq
    res.features = set(seq)
    if len(seq) >= 3:
        res.sample = {"ops": list(seq), "graph_sizes_after_each_repetition": [list(s) for s in states],
                      "observed": sorted({f.kind for f in res.failures})}
    gc.freeze()
    return res


def classify(case, failure):
    if failure.kind == "survivor-held-by-expression-registry":
        return "C20/survivor-held-by-expression-registry"
    if failure.kind == "expression-registry-growth":
        return "C20/expression-registry-growth"
    return None


def cluster_key(case, f):
    return (f.kind,)


def finish(run):
    if run.exhaustive and not (run.features.get("relate") and run.features.get("identity-recycled")):
        raise HarnessError("vacuous")


def repro(case):
    return f"""# C20 replay
import sys; sys.path.insert(0, '/verif')
from checks import c20
c20.init_worker()
for f in c20.run_case({case!r}).failures: print(f.kind, f.detail)
"""


def _m_strong_wrapped_instance():
    from krrood.entity_query_language import symbol_graph as G
    orig = G.WrappedInstance.__post_init__
    def post(self, instance):
        orig(self, instance)
        self._strong = instance
    G.WrappedInstance.__post_init__ = post


def _m_monitored_strong_inferred():
    # the edge data of the instance graph keeps the related instances alive
    from krrood.entity_query_language import symbol_graph as G
    orig = G.PredicateClassRelation.__post_init__
    def post(self):
        orig(self)
        object.__setattr__(self, "_keep", (self.source.instance, self.target.instance))
    G.PredicateClassRelation.__post_init__ = post
    from krrood.ontomatic.property_descriptor import property_descriptor_relation as R
    R.PropertyDescriptorRelation.__post_init__ = post


def _m_no_sweep_on_evaluate():
    from krrood.entity_query_language import symbol_graph as G
    G.SymbolGraph.remove_dead_instances = lambda self: None


MUTANTS = {"strong_wrapped_instance": _m_strong_wrapped_instance, "monitored_strong_inferred": _m_monitored_strong_inferred,
           "no_sweep_on_evaluate": _m_no_sweep_on_evaluate}


def apply_mutant(name):
    MUTANTS[name]()
