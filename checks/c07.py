"""
C07 - an EQL query translated to SQL selects the same entities as in-memory evaluation.

Translation validation: every query of a grammar over the curated mapped model x a family of database contents is
(1) answered by a plain-Python reference, (2) evaluated in memory by the real engine over the original objects, and
(3) translated with eql_to_sql and executed in a fresh Session on the persisted objects. All three must select the same
entities (compared through the object -> DAO -> database_id map), or the translator must refuse with EQLTranslationError.
"""
from __future__ import annotations

import itertools
import operator

from mc.core import CaseResult, Failure, HarnessError
from checks import ormgen, ormgraphs

PROPERTY = "C07"
LEVEL = "translation_validation"
RULE = ("programs: all queries from atom families over selected variables of type Holder / Item / SubItem (scalar comparison "
        "with a literal in six operators, in_/contains with literal lists and strings, one- and two-step relationship "
        "paths, enum literal, attribute-equality join and scalar comparisons between two variables) combined with "
        "and_/or_ up to 3 leaves, quantified with an and the, plus one instance of every construct the translator has no "
        "case for (must be rejected); x 20 database contents (wirings of 2 holders, 2-3 items, 1-2 carriers incl. contents "
        "where one entity has several join partners; references on queried paths never None); entities AND row "
        "multiplicities (one row per binding) are compared, and the(...) must fail alike. disagreements_checked = (query, "
        "database) pairs compared three ways")
ASSUMPTIONS = ["SQLite; when the in-memory engine and the plain-Python reference disagree the case is left to C01",
               "references on paths used by a query are never None (in-memory evaluation is undefined otherwise)"]
BOUNDS = {"quick": {"leaves": 3, "core_atoms_for_3_leaves": 7, "databases": 20}, "thorough": {"leaves": 3, "core_atoms_for_3_leaves": 11, "databases": 64}}
CHUNK = 2
RECYCLE_CHUNKS = 6
BUDGET_S = {"quick": 1200, "thorough": 9000}

OPS = {"eq": operator.eq, "ne": operator.ne, "lt": operator.lt, "le": operator.le, "gt": operator.gt, "ge": operator.ge}

# ---- atoms: (name, selected type, second variable type|None, path/op description) --------------------------------
# an atom is a tuple; build_atom / ref_atom interpret it.
#   ("cmp", sel, path, op, literal)            x.path op literal
#   ("in", sel, path, values)                  in_(x.path, values)
#   ("lit_contains_attr", sel, path, text)     contains(text, x.path)
#   ("attr_contains_lit", sel, path, text)     contains(x.path, text)
#   ("join", sel, pathx, ytype, pathy)         x.pathx == y.pathy   (relationship-valued attributes of two variables)
#   ("cmp2", sel, pathx, op, ytype, pathy)     x.pathx op y.pathy   (scalar attributes of two variables)
H, I, SI, C = "OHolder", "OItem", "OSubItem", "OCarrier"


def atoms_for(sel):
    out = []
    if sel == H:
        out += [("cmp", H, ("name",), op, "h0") for op in ("eq", "ne")]
        out += [("in", H, ("name",), ("h0", "zz")), ("in", H, ("name",), ()),
                ("lit_contains_attr", H, ("name",), "xh0y"), ("attr_contains_lit", H, ("name",), "1")]
        out += [("cmp", H, ("one", "n"), op, 1) for op in OPS]
        out += [("cmp", H, ("back", "name"), "eq", "h1"), ("cmp", H, ("back", "one", "n"), "eq", 0),
                ("cmp", H, ("one", "kind"), "eq", ("enum", "A")), ("in", H, ("one", "n"), (0, 5))]
        out += [("join", H, ("back",), C, ("owner",)), ("cmp2", H, ("name",), "eq", I, ("s",)),
                ("cmp2", H, ("one", "n"), "lt", I, ("n",))]
        # text containment is case sensitive in Python and knows no wild cards; a relationship compared with an object
        out += [("attr_contains_lit", H, ("name",), "H"), ("attr_contains_lit", H, ("name",), "_"),
                ("attr_contains_lit", H, ("name",), "%"), ("lit_contains_attr", H, ("name",), "XH0Y"),
                ("cmp_obj", H, ("one",), "eq", "i0"), ("cmp_obj", H, ("one",), "ne", "i0")]
    elif sel == I:
        out += [("cmp", I, ("n",), op, lit) for op in OPS for lit in (0, 1)]
        out += [("cmp", I, ("s",), "eq", "s0"), ("in", I, ("n",), (0, 2)), ("cmp", I, ("kind",), "ne", ("enum", "A"))]
        out += [("cmp2", I, ("n",), "lt", I, ("n",)), ("cmp2", I, ("n",), "eq", I, ("n",))]
        # a nullable column (s is None for one item): SQL's three-valued logic versus Python's None
        out += [("cmp", I, ("s",), "ne", "s0"), ("cmp", I, ("s",), "eq", None), ("cmp", I, ("s",), "ne", None),
                ("in", I, ("s",), (None, "s0")), ("in", I, ("s",), ("s0", "zz")),
                # membership in a set and in a range
                ("in_set", I, ("n",), (0, 5)), ("in_range", I, ("n",), (0, 2))]
    elif sel == SI:
        out += [("cmp", SI, ("f",), "gt", 0.4), ("cmp", SI, ("n",), "le", 1)]
    return out


CORE = {H: [0, 2, 6, 7, 12, 13, 16], I: [0, 3, 12, 13]}
CORE_THOROUGH = {H: [0, 1, 2, 4, 5, 6, 7, 9, 12, 13, 16], I: [0, 3, 5, 12, 13, 14]}


def queries(tier):
    out = []
    for sel in (H, I, SI):
        atoms = atoms_for(sel)
        singles = [("atom", a) for a in atoms]
        out += [(sel, q, quant) for q in singles for quant in ("an", "the")]
        for a, b in itertools.product(atoms, repeat=2):
            if sum(1 for t in (a, b) if t[0] in ("join", "cmp2")) > 1:
                continue
            for op in ("and", "or"):
                out.append((sel, (op, ("atom", a), ("atom", b)), "an"))
        core_idx = (CORE if tier == "quick" else CORE_THOROUGH).get(sel, [])
        core = [atoms[i] for i in core_idx if i < len(atoms)]
        for a, b, c in itertools.product(core, repeat=3):
            if sum(1 for t in (a, b, c) if t[0] in ("join", "cmp2")) > 1:
                continue
            for o1, o2 in itertools.product(("and", "or"), repeat=2):
                out.append((sel, (o1, ("atom", a), (o2, ("atom", b), ("atom", c))), "an"))
                out.append((sel, (o1, (o2, ("atom", a), ("atom", b)), ("atom", c)), "an"))
    # the SECOND variable constrained by a comparison with a literal - alone, or next to a join / a comparison between the
    # two variables (appended after all other queries so that the batches of the older families stay the same)
    for sel, ycmp in ((H, ("cmpy", H, C, ("owner", "name"), "eq", "h0")), (H, ("cmpy", H, I, ("n",), "lt", 1)),
                      (I, ("cmpy", I, I, ("n",), "gt", 0)), (I, ("cmpy", I, I, ("s",), "eq", "s0"))):
        atoms = atoms_for(sel)
        partners = [a for a in atoms if (a[0] == "join" and a[3] == ycmp[2]) or (a[0] == "cmp2" and a[4] == ycmp[2])]
        partners += [a for a in atoms if a[0] == "cmp"][:2]
        for a in partners:
            for l, r in ((("atom", a), ("atom", ycmp)), (("atom", ycmp), ("atom", a))):
                for op in ("and", "or"):
                    out.append((sel, (op, l, r), "an"))
                out.append((sel, ("and", l, r), "the"))
    # constructs the translator has no case for
    for kind in ("not", "exists", "forall", "index", "call", "predicate", "flatten", "setof", "nested"):
        out.append((H, ("unsupported", kind), "an"))
    return out


def databases(tier):
    out = []
    for one0, one1, back0, back1, owner, sub in itertools.product(("i0", "i1"), ("i0", "i1"), ("h0", "h1"), ("h0", "h1"),
                                                                   ("h0", "h1"), (False, True)):
        spec = (ormgraphs.item("i0", False, 0), ormgraphs.item("i1", True, 1),
                ormgraphs.holder("h0", False, one0, ("i0",), back0, ()),
                ormgraphs.holder("h1", sub, one1, (), back1, ("h0",)),
                ("c0", "OCarrier", (("owner", ("ref", owner)), ("item_type", ("type", "OItem")))))
        out.append(spec)
    if tier == "quick":
        out = out[::5][:12]
    else:
        out = out[::2]
    # contents in which one entity has SEVERAL join partners: a second carrier (and a third item with the same number
    # as the second), so that a query over two variables binds the same selected entity more than once
    more = []
    for one0, back0, back1, owner0, owner1 in itertools.product(("i0", "i1"), ("h0", "h1"), ("h0", "h1"), ("h0", "h1"), ("h0", "h1")):
        more.append((ormgraphs.item("i0", False, 0), ormgraphs.item("i1", True, 1), ormgraphs.item("i2", False, 1),
                     ormgraphs.holder("h0", False, one0, ("i0",), back0, ()),
                     ormgraphs.holder("h1", False, "i1", (), back1, ("h0",)),
                     ("c0", "OCarrier", (("owner", ("ref", owner0)), ("item_type", ("type", "OItem")))),
                     ("c1", "OCarrier", (("owner", ("ref", owner1)), ("item_type", ("type", "OSubItem"))))))
    out += more[::4] if tier == "quick" else more
    return out


def cases(tier, seed):
    qs = queries(tier)
    dbs = databases(tier)
    out = []
    batch = 400
    for di, db in enumerate(dbs):
        for start in range(0, len(qs), batch):
            out.append((tier, di, start, min(len(qs), start + batch)))
    return out


_ORM = [None]
_QS = {}
OBJS = [None]  # the objects of the database content under test, by node name (for atoms that mention an object)


def init_worker():
    from models import ormmodel as M
    from sqlalchemy.orm import configure_mappers
    text = ormgen.generate_orm_source(M.CLASSES, alternative_mappings=M.ALTERNATIVE_MAPPINGS, type_mappings=M.TYPE_MAPPINGS)
    _ORM[0] = ormgen.load_orm(text, prefix="vorm07")
    configure_mappers()


def lit(v):
    from models import ormmodel as M
    if isinstance(v, tuple) and v and v[0] == "enum":
        return M.OKind[v[1]]
    if isinstance(v, tuple):
        return list(v)
    return v


def walk(obj, path):
    for p in path:
        obj = getattr(obj, p)
    return obj


def ref_atom(a, x, y):
    k = a[0]
    if k == "cmp":
        return bool(OPS[a[3]](walk(x, a[2]), lit(a[4])))
    if k == "in":
        return walk(x, a[2]) in lit(a[3])
    if k == "in_set":
        return walk(x, a[2]) in set(a[3])
    if k == "in_range":
        return walk(x, a[2]) in range(*a[3])
    if k == "cmp_obj":
        return (walk(x, a[2]) is OBJS[0][a[4]]) == (a[3] == "eq")
    if k == "lit_contains_attr":
        return walk(x, a[2]) in a[3]
    if k == "attr_contains_lit":
        return a[3] in walk(x, a[2])
    if k == "join":
        return walk(x, a[2]) is walk(y, a[4])
    if k == "cmp2":
        return bool(OPS[a[3]](walk(x, a[2]), walk(y, a[5])))
    if k == "cmpy":
        return bool(OPS[a[4]](walk(y, a[3]), lit(a[5])))
    raise ValueError(a)


def second_type(q):
    if q[0] == "atom":
        a = q[1]
        return a[3] if a[0] == "join" else a[4] if a[0] == "cmp2" else a[2] if a[0] == "cmpy" else None
    if q[0] in ("and", "or"):
        return second_type(q[1]) or second_type(q[2])
    return None


def ref_cond(q, x, y):
    if q[0] == "atom":
        return ref_atom(q[1], x, y)
    if q[0] == "and":
        return ref_cond(q[1], x, y) and ref_cond(q[2], x, y)
    if q[0] == "or":
        return ref_cond(q[1], x, y) or ref_cond(q[2], x, y)
    raise ValueError(q)


def build_query(sel, q, quant, objs_by_type, in_memory):
    """returns the krrood query; domains are the real objects for in-memory evaluation and [] for translation"""
    from models import ormmodel as M
    from krrood.entity_query_language.entity import entity, set_of, let, and_, or_, not_, in_, contains, exists, for_all, flatten
    from krrood.entity_query_language.quantify_entity import an, the
    from krrood.entity_query_language.predicate import HasType
    dom = (lambda t: list(objs_by_type[t])) if in_memory else (lambda t: [])
    x = let(getattr(M, sel), dom(sel), name="x")
    yt = second_type(q) if q[0] != "unsupported" else None
    y = let(getattr(M, yt), dom(yt), name="y") if yt else None

    def attr(v, path):
        for p in path:
            v = getattr(v, p)
        return v

    def A(a):
        k = a[0]
        if k == "cmp":
            return getattr(operator, a[3])(attr(x, a[2]), lit(a[4]))
        if k == "in":
            return in_(attr(x, a[2]), lit(a[3]))
        if k == "in_set":
            return in_(attr(x, a[2]), set(a[3]))
        if k == "in_range":
            return in_(attr(x, a[2]), range(*a[3]))
        if k == "cmp_obj":
            return getattr(operator, a[3])(attr(x, a[2]), OBJS[0][a[4]])
        if k == "lit_contains_attr":
            return contains(a[3], attr(x, a[2]))
        if k == "attr_contains_lit":
            return contains(attr(x, a[2]), a[3])
        if k == "join":
            return attr(x, a[2]) == attr(y, a[4])
        if k == "cmp2":
            return getattr(operator, a[3])(attr(x, a[2]), attr(y, a[5]))
        if k == "cmpy":
            return getattr(operator, a[4])(attr(y, a[3]), lit(a[5]))
        raise ValueError(a)

    def Q(q):
        if q[0] == "atom":
            return A(q[1])
        if q[0] == "and":
            return and_(Q(q[1]), Q(q[2]))
        if q[0] == "or":
            return or_(Q(q[1]), Q(q[2]))
        raise ValueError(q)

    if q[0] == "unsupported":
        k = q[1]
        z = let(M.OItem, dom(I), name="z")
        if k == "not":
            c = not_(x.name == "h0")
        elif k == "exists":
            c = exists(z, z.n == x.one.n)
        elif k == "forall":
            c = for_all(z, z.n >= x.one.n)
        elif k == "index":
            c = x.many[0].n == 0
        elif k == "call":
            c = x.name.startswith("h")
        elif k == "predicate":
            c = HasType(x, M.OSubHolder)
        elif k == "flatten":
            c = flatten(x.many).n == 0
        elif k == "nested":
            c = x.one == an(entity(z, z.n == 0))
        elif k == "setof":
            return an(set_of([x, z], x.one == z))
        return an(entity(x, c))
    desc = entity(x, Q(q))
    return an(desc) if quant == "an" else the(desc)


def run_case(case):
    import sqlalchemy
    from sqlalchemy.orm import Session
    from sqlalchemy.exc import NoResultFound, MultipleResultsFound
    from krrood.ormatic.dao import to_dao, ToDAOState
    from krrood.ormatic.utils import create_engine
    from krrood.ormatic.eql_interface import eql_to_sql, EQLTranslationError
    from krrood.entity_query_language import failures as F
    tier, di, start, end = case
    res = CaseResult(evaluations=0)
    if tier not in _QS:
        _QS[tier] = (queries(tier), databases(tier))
    qs, dbs = _QS[tier]
    spec = dbs[di]
    objs = ormgraphs.build(spec)
    OBJS[0] = objs
    by_type = {}
    from models import ormmodel as M
    for o in objs.values():
        for t in (H, I, SI, C):
            if isinstance(o, getattr(M, t)):
                by_type.setdefault(t, []).append(o)
    eng = create_engine("sqlite:///:memory:")
    _ORM[0].Base.metadata.create_all(eng)
    state = ToDAOState()
    daos = {n: to_dao(o, state) for n, o in objs.items()}
    with Session(eng) as s:
        s.add_all(list(daos.values()))
        s.commit()
        pk = {id(o): (type(daos[n]).__name__, daos[n].database_id) for n, o in objs.items()}
    name_of = {id(o): n for n, o in objs.items()}
    programs = set()
    feats = set()
    try:
        with Session(eng) as session:
            for sel, q, quant in qs[start:end]:
                label = f"{quant}(entity(x:{sel}, {show(q)})) on db {ormgraphs.show(spec)}"
                programs.add((sel, q, quant))
                if q[0] == "unsupported":
                    try:
                        t = eql_to_sql(build_query(sel, q, quant, by_type, False), session)
                        t.evaluate()
                        res.failures.append(Failure("unsupported-construct-accepted", f"{label}: translated and executed instead of EQLTranslationError",
                                                    case=(tier, di, sel, q, quant)))
                    except EQLTranslationError:
                        feats.add("rejected:" + q[1])
                    except Exception as e:
                        res.failures.append(Failure("unrelated-exception", f"{label}: {type(e).__name__}: {str(e)[:160]}",
                                                    case=(tier, di, sel, q, quant)))
                    continue
                yt = second_type(q)
                ys = by_type.get(yt, []) if yt else [None]
                exp = [o for o in by_type.get(sel, []) if any(ref_cond(q, o, y) for y in ys)]
                # one row per binding of the query's variables: a selected entity with k partners is selected k times
                exp_multi = sorted(name_of[id(o)] for o in by_type.get(sel, []) for y in ys if ref_cond(q, o, y))
                # in memory
                try:
                    mq = build_query(sel, q, quant, by_type, True)
                    if quant == "an":
                        mem = list(mq.evaluate())
                        mem_out = ("rows", sorted({name_of[id(o)] for o in mem}))
                        mem_multi = sorted(name_of[id(o)] for o in mem)
                    else:
                        try:
                            mem_out = ("one", name_of[id(mq.evaluate())])
                        except F.NoSolutionFound:
                            mem_out = ("none",)
                        except F.MultipleSolutionFound:
                            mem_out = ("multiple",)
                except Exception as e:
                    feats.add("memory-crash(left to C01)")
                    continue
                exp_names = sorted(name_of[id(o)] for o in exp)
                if quant == "an" and mem_out[1] != exp_names:
                    feats.add("memory-differs-from-reference(left to C01)")
                    continue
                if quant == "the":
                    exp_the = ("none",) if not exp_multi else ("one", exp_multi[0]) if len(exp_multi) == 1 else ("multiple",)
                    if mem_out != exp_the:
                        feats.add("memory-differs-from-reference(left to C01)")
                        continue
                    if len(exp_names) == 1 and len(exp_multi) > 1:
                        feats.add("the:one-entity-several-bindings")
                # row multiplicities are compared when the engine's own multiplicities are the reference's
                multi = quant == "an" and mem_multi == exp_multi
                if quant == "an" and not multi:
                    feats.add("memory-multiplicity-differs-from-reference(compared as sets)")
                if multi and len(exp_multi) > len(exp_names):
                    feats.add("an:several-bindings-per-entity")
                # SQL
                res.evaluations += 1
                try:
                    tq = eql_to_sql(build_query(sel, q, quant, by_type, False), session)
                except EQLTranslationError:
                    feats.add("refused")
                    continue
                except Exception as e:
                    res.failures.append(Failure("translation-crash", f"{label}: {type(e).__name__}: {str(e)[:160]}",
                                                case=(tier, di, sel, q, quant)))
                    continue
                try:
                    if quant == "an":
                        rows = list(tq.evaluate())
                        got = sorted({n for n, o in objs.items() if pk[id(o)][1] in {r.database_id for r in rows}
                                      and isinstance(o, getattr(M, sel))})
                        sql_out = ("rows", got)
                        sql_multi = sorted([n for n, o in objs.items() if pk[id(o)][1] == r.database_id
                                            and isinstance(o, getattr(M, sel))][0] for r in rows)
                    else:
                        try:
                            r = tq.evaluate()
                            sql_out = ("one", [n for n, o in objs.items() if pk[id(o)][1] == r.database_id and isinstance(o, getattr(M, sel))][0])
                        except NoResultFound:
                            sql_out = ("none",)
                        except MultipleResultsFound:
                            sql_out = ("multiple",)
                except Exception as e:
                    res.failures.append(Failure("sql-execution-crash", f"{label}: {type(e).__name__}: {str(e)[:200]}; SQL: {str(tq.sql_query)[:200]}",
                                                case=(tier, di, sel, q, quant)))
                    continue
                feats.add("compared:" + quant)
                if sql_out == mem_out and multi and sql_multi != mem_multi:
                    res.failures.append(Failure("different-row-multiplicity",
                                                f"{label}: one row per binding in memory {mem_multi}, SQL returns {sql_multi}; "
                                                f"statement: {' '.join(str(tq.sql_query).split())[:300]}",
                                                case=(tier, di, sel, q, quant)))
                elif sql_out != mem_out:
                    res.failures.append(Failure("different-entities", f"{label}: in memory {mem_out}, SQL {sql_out}; "
                                                                      f"statement: {' '.join(str(tq.sql_query).split())[:300]}",
                                                case=(tier, di, sel, q, quant)))
                elif quant == "an" and 0 < len(exp_names) < len(by_type.get(sel, [])) and res.sample is None and q[0] != "atom":
                    res.sample = {"query": label[:300], "entities": exp_names, "sql": " ".join(str(tq.sql_query).split())[:300]}
    finally:
        eng.dispose()
    res.features = feats
    res.nontrivial_key = case
    res.outcome_key = (di, start, len(res.failures))
    res.extra_programs = len(programs)
    return res


def show(q):
    if q[0] == "atom":
        a = q[1]
        if a[0] == "cmp":
            return f"x.{'.'.join(a[2])} {a[3]} {a[4]!r}"
        if a[0] == "in":
            return f"in_(x.{'.'.join(a[2])}, {list(a[3])})"
        if a[0] == "in_set":
            return f"in_(x.{'.'.join(a[2])}, {set(a[3])})"
        if a[0] == "in_range":
            return f"in_(x.{'.'.join(a[2])}, range{a[3]})"
        if a[0] == "cmp_obj":
            return f"x.{'.'.join(a[2])} {a[3]} <object {a[4]}>"
        if a[0] == "lit_contains_attr":
            return f"contains({a[3]!r}, x.{'.'.join(a[2])})"
        if a[0] == "attr_contains_lit":
            return f"contains(x.{'.'.join(a[2])}, {a[3]!r})"
        if a[0] == "join":
            return f"x.{'.'.join(a[2])} == y:{a[3]}.{'.'.join(a[4])}"
        if a[0] == "cmp2":
            return f"x.{'.'.join(a[2])} {a[3]} y:{a[4]}.{'.'.join(a[5])}"
        if a[0] == "cmpy":
            return f"y:{a[2]}.{'.'.join(a[3])} {a[4]} {a[5]!r}"
    if q[0] in ("and", "or"):
        return f"{q[0]}_({show(q[1])}, {show(q[2])})"
    return repr(q)


def atoms_in(q):
    if q[0] == "atom":
        return [q[1]]
    if q[0] in ("and", "or"):
        return atoms_in(q[1]) + atoms_in(q[2])
    return []


def classify(case, failure):
    from checks import c07_findings
    return c07_findings.classify(failure.case, failure)


def cluster_key(case, f):
    tier, di, sel, q, quant = f.case
    return (f.kind, tuple(sorted({(a[0],) + ((a[1], a[4]) if a[0] == "cmp2" else (a[1], a[2], a[3][-1]) if a[0] == "cmpy" else (a[1], a[2][-1])) for a in atoms_in(q)})) if q[0] != "unsupported" else q)


def finish(run):
    qs = queries(run.tier)
    run.extra["programs"] = len(qs)
    run.extra["disagreements_checked"] = run.evaluations
    if run.exhaustive and not run.failures:
        for k in ("compared:an", "compared:the", "rejected:not", "the:one-entity-several-bindings", "an:several-bindings-per-entity"):
            if not run.features.get(k):
                raise HarnessError("vacuous: " + k)


def repro(case):
    return f"""# C07 replay (a batch of queries on one database)
import sys; sys.path.insert(0, '/verif')
from checks import c07
c07.init_worker()
for f in c07.run_case({case!r}).failures: print(f.kind, f.detail)
"""


def _m_or_as_and():
    from krrood.ormatic import eql_interface as E
    from sqlalchemy import and_
    def translate_or(self, query):
        self.disjunction_depth += 1
        try:
            parts = self._collect_logical_parts(query)
        finally:
            self.disjunction_depth -= 1
        return self._combine_logical_parts(parts, and_)
    E.EQLTranslator.translate_or = translate_or


def _m_ge_gt_swapped():
    from krrood.ormatic import eql_interface as E
    import operator
    orig = E.OperatorMapper.map_comparison_operator
    def patched(self, operation, left, right):
        if operation is operator.ge:
            return left > right
        return orig(self, operation, left, right)
    E.OperatorMapper.map_comparison_operator = patched


def _m_alias_reused_across_paths():
    from krrood.ormatic import eql_interface as E
    def is_path_joined(self, dao_class, attribute_name):
        return any(k[1] == attribute_name for k in self.aliases_by_path)
    def get_alias_for_path(self, dao_class, attribute_name):
        for k, v in self.aliases_by_path.items():
            if k[1] == attribute_name:
                return v
    E.JoinManager.is_path_joined = is_path_joined
    E.JoinManager.get_alias_for_path = get_alias_for_path


def _m_join_allowed_under_or():
    from krrood.ormatic import eql_interface as E
    orig = E.EQLTranslator.translate_or
    def translate_or(self, query):
        parts = self._collect_logical_parts(query)
        from sqlalchemy import or_
        return self._combine_logical_parts(parts, or_)
    E.EQLTranslator.translate_or = translate_or


MUTANTS = {"or_as_and": _m_or_as_and, "ge_gt_swapped": _m_ge_gt_swapped, "alias_reused_across_paths": _m_alias_reused_across_paths,
           "join_allowed_under_or": _m_join_allowed_under_or}


def apply_mutant(name):
    MUTANTS[name]()
