"""
C10 - queries are lazy: building evaluates nothing, consuming pulls only what it needs.

The harness supplies the observation points (no hook in krrood): domain generators that log every element handed out,
items whose data attributes and methods log every read, predicate / symbolic-function bodies that log invocations.
(a) construction: every query shape of the C01 enumeration with <=2 leaves (plus feature atoms, dependent variables,
    one-shot literal operands, quantifier variants), every rule tree with <=4 branches: after building everything the
    log must be empty;
(b) consumption: for a family of query shapes over one-shot generator domains and EVERY k: pulling k results yields a
    prefix of the full result sequence of a separate fresh run, k=0 pulls nothing, and some selected variable's
    generator has not been read past the last element that occurs in the k results.
"""
from __future__ import annotations

import itertools

from mc.core import CaseResult, Failure, HarnessError
from models import eqlworld as W
from oracles import fol
from checks import eqlfront, c01, c08
from checks.c01 import A, L, X, Y, Z

PROPERTY = "C10"
LEVEL = "exploration"
RULE = ("(a) all distinct queries of the C01 enumeration with <=2 leaves, every feature atom context, flatten and nested "
        "sub-queries, one-shot iterables as literal operands, an/the/Exactly quantifiers, and every rule tree with <=4 "
        "branches, built over logging generator domains and logging items: event log must be empty after construction; "
        "(b) consumption shapes x every k in 0..number of results: first k results are a prefix of a fresh full run, "
        "k=0 produces no event, and for k>=1 some selected variable o satisfies pulled_o(k) <= position of the last "
        "element of o's generator occurring in the k results, and a flattened lazily produced iterable has handed out no more "
        "than the elements up to the k-th result. non-trivial = cases whose full evaluation produces events")
ASSUMPTIONS = ["inner domains of a nested-loop evaluation may be drained between two results; only the existence of one "
               "variable that is never read ahead is required (loop-order agnostic)",
               "in consumption cases every variable of the query is selected, so its position in the results is known"]
BOUNDS = {"quick": {"construction_leaves": 2, "rule_branches": 4, "consumption_domain": 7},
          "thorough": {"construction_leaves": 3, "rule_branches": 5, "consumption_domain": 7}}
CHUNK = 150
RECYCLE_CHUNKS = 8

GENLIT = ("genlit", (1, 2))

CONSUME = []


def _consume_shapes():
    if CONSUME:
        return CONSUME
    xa = [("cmp", "eq", A(X, "a"), L(0)), ("cmp", "eq", A(X, "b"), L(1)), ("cmp", "ne", A(X, "a"), L(0)),
          ("bool", A(X, "flag")), ("in", A(X, "a"), L((1, 2))), ("contains", A(X, "tags"), L(1)),
          ("cmp", "eq", A(A(X, "nxt"), "a"), L(1)), ("cmp", "eq", ("call", X, "m", (1,)), L(1)),
          ("hastype", X, "SubItem"), ("pred", "AIs", X, L(1)), ("func", "b_is", (("item", X), ("k", L(1))))]
    one = []
    for c in xa:
        one.append(c)
        one.append(("not", c))
    for c, d in itertools.product(xa[:4], repeat=2):
        one.append(("and", c, d))
        one.append(("or", c, d))
    for c in [None] + one:
        CONSUME.append(c01.mkq("entity", (X,), c))
    two = [("cmp", "eq", A(X, "a"), A(Y, "a")), ("cmp", "lt", A(X, "b"), A(Y, "b")), ("pred", "SameA", X, Y),
           ("and", ("cmp", "eq", A(X, "a"), L(0)), ("cmp", "eq", A(Y, "b"), L(1))),
           ("and", ("cmp", "ge", A(X, "a"), L(1)), ("cmp", "eq", A(Y, "a"), A(X, "a"))),
           ("or", ("cmp", "eq", A(X, "a"), A(Y, "a")), ("cmp", "lt", A(X, "b"), A(Y, "b"))),
           ("not", ("cmp", "eq", A(X, "a"), A(Y, "a")))]
    for c in two:
        CONSUME.append(c01.mkq("setof", (X, Y), c))
        CONSUME.append(c01.mkq("setof", (Y, X), c))
    F = ("var", "f")
    CONSUME.append(c01.mkq("setof", (X, F), ("cmp", "ge", F, L(0)), extra=(("flat", "f", A(X, "tags")),)))
    # flattened LAZY iterables: an attribute that produces a one-shot generator, and a one-shot generator itself
    for c in (("cmp", "ge", F, L(0)), ("cmp", "ne", F, L(9)), ("cmp", "ge", F, L(2)), None):
        CONSUME.append(c01.mkq("setof", (X, F), c, extra=(("flat", "f", A(X, "lazy")),)))
    for kind in ("gen", "iter", "map", "custom"):
        G = ("genlit", (0, 3, 1, 4, 2, 5, 0, 0), kind)
        for c in (("cmp", "ge", F, L(0)), ("cmp", "ge", F, L(3)), ("cmp", "lt", F, L(2))):
            CONSUME.append(("query", "entity", (F,), c, (("flat", "f", G),)))
    return CONSUME


def cases(tier, seed):
    out = []
    seen = set()
    # (a) construction
    for q, dspec in (c[:2] for c in c01.cases("quick" if BOUNDS[tier]["construction_leaves"] == 2 else "thorough", seed)):
        if q in seen:
            continue
        nleaves = sum(1 for s in (fol.subconds(q[3]) if q[3] else ()) if s[0] not in ("and", "or", "not"))
        if nleaves > BOUNDS[tier]["construction_leaves"]:
            continue
        seen.add(q)
        out.append(("build", q, "an"))
        if nleaves <= 1:
            out.append(("build", q, "the"))
            out.append(("build", q, "exactly"))
    for kind in ("gen", "iter", "map", "filter", "custom", "zip"):
        G = ("genlit", (1, 2), kind)
        for c in (("in", A(X, "a"), G), ("contains", G, A(X, "a")), ("not", ("in", A(X, "a"), G)),
                  ("and", ("cmp", "eq", A(X, "b"), L(1)), ("in", A(X, "a"), G)), ("cmp", "eq", A(X, "tags"), G)):
            out.append(("build", c01.mkq("entity", (X,), c), "an"))
        out.append(("build", ("query", "entity", (("var", "f"),), ("cmp", "ge", ("var", "f"), L(1)),
                              (("flat", "f", G),)), "an"))
        out.append(("build", ("query", "setof", (X, ("var", "f")), ("cmp", "eq", ("var", "f"), A(X, "a")),
                              (("dom", "x"), ("flat", "f", G))), "an"))
    # user objects whose special methods log: as operands of comparisons / membership tests, as conclusion values, as a
    # single-instance domain, as a user-defined (re-iterable) container
    for kind in ("spy", "falsy_spy", "bag"):
        S_ = ("spylit", kind)
        # (a user object with its own __eq__ as the LEFT operand is compared by Python itself, before krrood sees it)
        for c in (("cmp", "eq", A(X, "nxt"), S_), ("cmp", "ne", A(X, "nxt"), S_), ("in", A(X, "a"), S_), ("contains", S_, A(X, "a")),
                  ("and", ("cmp", "eq", A(X, "b"), L(1)), ("cmp", "eq", A(X, "nxt"), S_)), ("not", ("cmp", "eq", A(X, "nxt"), S_))):
            out.append(("build", c01.mkq("entity", (X,), c), "an"))
        for what in ("add_value", "set_value", "let_single_instance", "let_container", "flatten_container"):
            out.append(("build_special", what, kind))
    for n in range(1, BOUNDS[tier]["rule_branches"] + 1):
        for b in c08.blocks(n, "root"):
            if n == 1 and not b[0]:
                continue
            out.append(("build_rule", b))
    # (b) consumption: one case per (query, k); k range is discovered by the worker from a fresh full run
    for q in _consume_shapes():
        out.append(("consume", q))
    return out


class Env:
    """fresh logging world"""

    def __init__(self, tail=True):
        spec = list(W.UNIVERSE)
        if tail:
            spec += [("S1", 9, 9, False), ("S2", 9, 8, False)]
        self.items = W.make_items(spec, logged=True)
        self.world = eqlfront.std_world({"x": list(self.items), "y": self.items[1:] + self.items[:1], "z": list(self.items)})

    def wrap(self, name, items):
        def gen():
            for i, it in enumerate(items):
                if W._ARMED[0]:
                    W.LOG.append(("pull", name, i))
                yield it
        return gen()


def arm():
    del W.LOG[:]
    W._ARMED[0] = True


def disarm():
    W._ARMED[0] = False
    ev = list(W.LOG)
    del W.LOG[:]
    return ev


def build_genlit(q, env):
    """replace ("genlit", values) terms by a logging one-shot generator before handing the AST to the front end"""
    def gen(vals):
        for i, v in enumerate(vals):
            if W._ARMED[0]:
                W.LOG.append(("pull", "literal", i))
            yield v

    class Custom:
        def __init__(self, vals):
            self.it = gen(vals)

        def __iter__(self):
            return self

        def __next__(self):
            return next(self.it)

    def one_shot(vals, kind):
        if kind == "gen":
            return gen(vals)
        if kind == "iter":
            return iter(_LoggingList(vals))
        if kind == "map":
            return map(lambda v: v, gen(vals))
        if kind == "filter":
            return filter(lambda v: True, gen(vals))
        if kind == "zip":
            return (v for v, _ in zip(gen(vals), range(99)))
        return Custom(vals)

    def T(t):
        if isinstance(t, tuple) and t and t[0] == "spylit":
            return ("rawlit", make_spy(t[1]))
        if isinstance(t, tuple) and t and t[0] == "genlit":
            return ("rawlit", one_shot(t[1], t[2] if len(t) > 2 else "gen"))
        if isinstance(t, tuple):
            return tuple(T(e) for e in t)
        return t
    return T(q)


def make_spy(kind):
    """user data whose special methods log while the log is armed"""
    def note(what):
        if W._ARMED[0]:
            W.LOG.append(("special-method", kind, what))

    class Spy:
        def __bool__(self):
            note("__bool__")
            return kind != "falsy_spy"

        def __repr__(self):
            note("__repr__")
            return "<spy>"

        def __str__(self):
            note("__str__")
            return "<spy>"

        def __eq__(self, other):
            note("__eq__")
            return self is other

        def __hash__(self):
            note("__hash__")
            return 7

    class Bag(Spy):
        """a user-defined container that can be iterated any number of times (no __next__)"""

        def __iter__(self):
            for i in (1, 2):
                note("__iter__ produced an element")
                yield i

        def __len__(self):
            note("__len__")
            return 2

        def __contains__(self, item):
            note("__contains__")
            return item in (1, 2)
    return Bag() if kind == "bag" else Spy()


def run_build_special(case, res):
    from krrood.entity_query_language.entity import entity, let, inference, flatten
    from krrood.entity_query_language.quantify_entity import an
    from krrood.entity_query_language.conclusion import Add, Set
    _, what, kind = case
    env = Env()
    label = f"{what} with a user object of kind {kind}"
    spy = make_spy(kind)
    arm()
    try:
        x = let(W.Item, env.wrap("x", env.items), name="x")
        if what in ("add_value", "set_value"):
            v = let(W.Item, env.wrap("y", env.items), name="v")
            q = an(entity(v, x.a > 0))
            with q:
                (Add if what == "add_value" else Set)(v, spy)
        elif what == "let_single_instance":
            let(type(spy), spy)
        elif what == "let_container":
            if kind != "bag":
                disarm()
                return
            y = let(int, spy, name="y")
            an(entity(y, y > 0))
        elif what == "flatten_container":
            if kind != "bag":
                disarm()
                return
            f = flatten(spy)
            an(entity(f, f > 0))
    except Exception as e:
        disarm()
        res.failures.append(Failure("crash-at-construction", f"{label}: {type(e).__name__}: {e}"))
        return
    ev = disarm()
    res.features = {"build:special"}
    res.nontrivial_key = case
    res.outcome_key = ("special", what, kind, bool(ev))
    if ev:
        res.failures.append(Failure("evaluated-at-construction", f"{label}: building produced events {ev[:6]}"))


class _LoggingList(list):
    def __iter__(self):
        for i, v in enumerate(list.__iter__(self)):
            if W._ARMED[0]:
                W.LOG.append(("pull", "literal", i))
            yield v


def run_build(case, res):
    _, q, quant = case
    from krrood.entity_query_language.result_quantification_constraint import Exactly
    env = Env()
    label = fol.show_query(q) if "genlit" not in repr(q) and "spylit" not in repr(q) else repr(q[3])
    arm()
    try:
        qq = build_genlit(q, env)
        kw = {"quantifier": "the"} if quant == "the" else {"quantification": Exactly(2)} if quant == "exactly" else {}
        built = eqlfront.build(qq, env.world, domain_wrap=env.wrap, **kw)
        it = built.query.evaluate() if quant != "the" else None  # calling evaluate() without iterating does nothing
    except Exception as e:
        ev = disarm()
        res.failures.append(Failure("crash-at-construction", f"{label} ({quant}): {type(e).__name__}: {e}"))
        return
    ev = disarm()
    res.features = {"build:" + quant}
    if ev:
        res.failures.append(Failure("evaluated-at-construction", f"{label} ({quant}): building the query produced events {ev[:6]}"))
    # the query must still work: evaluate it fully now (also gives the non-triviality of the case)
    arm()
    try:
        if quant == "an":
            n = len(list(built.query.evaluate()))
        else:
            n = -1
    except Exception:
        n = -2
    ev2 = disarm()
    if ev2:
        res.nontrivial_key = case
    res.outcome_key = ("build", bool(ev), n)


def run_build_rule(case, res):
    from krrood.entity_query_language.entity import entity, let, inference
    from krrood.entity_query_language.quantify_entity import an
    from krrood.entity_query_language.conclusion import Add
    from krrood.entity_query_language.rule import refinement, alternative, next_rule
    from oracles import rdr
    block = case[1]
    nb = rdr.number(block)
    k = rdr.size(block)
    dom = [LRItem("x" + "".join("1" if b else "0" for b in bits), *bits) for bits in itertools.product((False, True), repeat=k)]

    def gen():
        for i, it in enumerate(dom):
            if W._ARMED[0]:
                W.LOG.append(("pull", "x", i))
            yield it
    arm()
    try:
        x = let(LRItem, gen(), name="x")
        v = inference(c08.ROut)()
        cond = lambda i: getattr(x, f"b{i}") == True
        query = an(entity(v, cond(0)))

        def body(nb):
            i, has_c, ref, fol_ = nb
            if has_c:
                Add(v, inference(c08.ROut)(tag=i, p=x))
            if ref is not None:
                with refinement(cond(ref[0])):
                    body(ref)
            for kind, fb in fol_:
                with (alternative if kind == "alt" else next_rule)(cond(fb[0])):
                    body(fb)
        with query:
            body(nb)
        it = query.evaluate()
    except Exception as e:
        disarm()
        res.failures.append(Failure("crash-at-construction", f"rule tree {rdr.show(block)}: {type(e).__name__}: {e}"))
        return
    ev = disarm()
    res.features = {"build:rule"}
    if ev:
        res.failures.append(Failure("evaluated-at-construction", f"rule tree {rdr.show(block)}: events {ev[:6]}"))
    arm()
    n = len(list(query.evaluate()))
    if disarm():
        res.nontrivial_key = case
    res.outcome_key = ("rule", bool(ev), n)


class LRItem(W._Logging, c08.RItem):
    pass


def run_consume(case, res):
    _, q = case
    label = fol.show_query(q)
    # fresh full run
    env = Env()
    try:
        built = eqlfront.build(build_genlit(q, env), env.world, domain_wrap=env.wrap)
        full = [tuple(getattr(v, "name", v) for v in row) for row in built.rows()]
    except Exception as e:
        res.failures.append(Failure("crash", f"{label}: {type(e).__name__}: {e}"))
        return
    sel_vars = [t[1] for t in q[2] if t[0] == "var"]
    res.evaluations = 0
    feats = {"consume"}
    for k in range(0, len(full) + 1):
        env = Env()
        built = eqlfront.build(build_genlit(q, env), env.world, domain_wrap=env.wrap)
        arm()
        it = iter(built.query.evaluate())
        got = []
        try:
            for _ in range(k):
                got.append(tuple(getattr(v, "name", v) for v in built.row(next(it))))
        except StopIteration:
            pass
        ev = disarm()
        res.evaluations += 1
        if got != full[:k]:
            res.failures.append(Failure("not-a-prefix", f"{label}: first {k} results {got} are not a prefix of {full}"))
            break
        if k == 0:
            if ev:
                res.failures.append(Failure("evaluate-without-iterating-did-work", f"{label}: evaluate() + iter() produced {ev[:5]}"))
                break
            continue
        if ev:
            res.nontrivial_key = case
        # laziness of the domains
        pulled = {}
        for e in ev:
            if e[0] == "pull":
                pulled[e[1]] = max(pulled.get(e[1], 0), e[2] + 1)
        names = {v: [o.name for o in env.world[v]] for v in ("x", "y", "z")}
        ok_some = False
        detail = []
        for idx, t in enumerate(q[2]):
            if t[0] != "var" or t[1] not in names:
                continue
            v = t[1]
            pos = max(names[v].index(r[idx]) + 1 for r in got)
            detail.append((v, pulled.get(v, 0), pos))
            if pulled.get(v, 0) <= pos:
                ok_some = True
        if detail and not ok_some:
            res.failures.append(Failure("read-ahead", f"{label}: after {k} result(s) every selected variable's generator was read "
                                                      f"past the last element needed: (variable, pulled, needed) = {detail}"))
            break
        # laziness of flattened lazy iterables: the inner generator that produced the k-th result has handed out no more
        # than the elements up to the one that IS the k-th result
        flat = [d for d in q[4] if d[0] == "flat"]
        if flat and (flat[0][2] == A(X, "lazy") or flat[0][2][0] == "genlit"):
            ref_cond = (lambda v: True) if q[3] is None else (lambda v, c=q[3]: {"ge": v >= c[3][1], "ne": v != c[3][1], "lt": v < c[3][1]}[c[1]])
            if flat[0][2][0] == "genlit":
                source, values, m = "literal", list(flat[0][2][1]), len(got)
            else:
                xk = got[-1][0]
                source = "inner:" + xk
                values = [it_.tags for it_ in env.items if object.__getattribute__(it_, "name") == xk][0]
                m = sum(1 for r in got if r[0] == xk)
            hits = [i + 1 for i, v in enumerate(values) if ref_cond(v)]
            needed = hits[m - 1]
            feats.add("flatten-lazy")
            if needed < len(values):
                feats.add("flatten-lazy:stops-early")
            if pulled.get(source, 0) > needed:
                res.failures.append(Failure("flatten-read-ahead", f"{label}: after {k} result(s) the flattened lazy iterable {source} "
                                                                  f"had handed out {pulled.get(source, 0)} elements, the results need {needed}"))
                break
        feats.add("k>0")
    res.features = feats
    res.outcome_key = ("consume", len(full))
    if not res.failures:
        res.sample = {"query": label, "results": len(full), "k_values": len(full) + 1}


def run_case(case):
    res = CaseResult()
    try:
        if case[0] == "build":
            run_build(case, res)
        elif case[0] == "build_rule":
            run_build_rule(case, res)
        elif case[0] == "build_special":
            run_build_special(case, res)
        else:
            run_consume(case, res)
    finally:
        W._ARMED[0] = False
        del W.LOG[:]
    return res


def classify(case, failure):
    return None


def cluster_key(case, f):
    return (case[0], f.kind)


def finish(run):
    if run.exhaustive and not run.failures:
        for k in ("build:an", "build:the", "build:rule", "consume", "k>0", "flatten-lazy", "flatten-lazy:stops-early"):
            if not run.features.get(k):
                raise HarnessError("vacuous: " + k)


def repro(case):
    return f"""# C10 replay
import sys; sys.path.insert(0, '/verif')
from checks import c10
for f in c10.run_case({case!r}).failures: print(f.kind, f.detail)
"""


def _m_let_materialises():
    from krrood.entity_query_language import entity as E
    orig = E._get_domain_source_from_domain_and_type_values
    def patched(domain, type_):
        if E.is_iterable(domain):
            domain = [x for x in domain if isinstance(x, type_)]
        return orig(domain, type_)
    E._get_domain_source_from_domain_and_type_values = patched


def _m_an_returns_list():
    from krrood.entity_query_language import symbolic as S
    orig = S.ResultQuantifier.evaluate
    def evaluate(self):
        return iter(list(orig(self)))
    S.An.evaluate = evaluate


def _m_symbolic_function_validates():
    from krrood.entity_query_language import symbolic as S
    orig = S.Variable.__post_init__
    def post(self):
        orig(self)
        if self._predicate_type_ and self._kwargs_:
            try:
                self._type_(**{k: 0 for k in self._kwargs_})
            except Exception:
                pass
    S.Variable.__post_init__ = post


def _m_prefetch_one():
    from krrood.entity_query_language import hashed_data as H
    orig = H.HashedIterable.__iter__
    def __iter__(self):
        it = orig(self)
        try:
            prev = next(it)
        except StopIteration:
            return
        for nxt in it:
            yield prev
            prev = nxt
        yield prev
    H.HashedIterable.__iter__ = __iter__


MUTANTS = {"let_materialises": _m_let_materialises, "an_returns_list": _m_an_returns_list,
           "symbolic_function_validates": _m_symbolic_function_validates, "prefetch_one": _m_prefetch_one}


def apply_mutant(name):
    MUTANTS[name]()
