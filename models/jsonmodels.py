"""Importable harness classes for the JSON checks (C18, C19)."""
from __future__ import annotations

import enum
from dataclasses import dataclass
from typing import Any

from krrood.adapters.json_serializer import (SubclassJSONSerializer, JSONSerializableTypeRegistry, to_json, from_json,
                                             JSON_TYPE_NAME)
from krrood.utils import get_full_class_name


@dataclass
class Box(SubclassJSONSerializer):
    """depth 1: carries an arbitrary nested value"""
    payload: Any = None

    def to_json(self):
        d = super().to_json()
        d["payload"] = to_json(self.payload)
        return d

    @classmethod
    def _from_json(cls, data, **kwargs):
        return cls(payload=from_json(data["payload"]))


@dataclass
class SubBox(Box):
    """depth 2: inherits everything"""


@dataclass
class SubSubBox(SubBox):
    """depth 3: adds a field and overrides both directions"""
    extra: Any = 0

    def to_json(self):
        d = super().to_json()
        d["extra"] = to_json(self.extra)
        return d

    @classmethod
    def _from_json(cls, data, **kwargs):
        return cls(payload=from_json(data["payload"]), extra=from_json(data["extra"]))


@dataclass
class Point(SubclassJSONSerializer):
    """same simple name as jsonmodels2.Point, different shape"""
    x: int = 0

    def to_json(self):
        d = super().to_json()
        d["x"] = self.x
        return d

    @classmethod
    def _from_json(cls, data, **kwargs):
        return cls(x=data["x"])


class Shelf:
    """namespace class: its inner class is a serialisable class that is NOT an attribute of the module"""

    @dataclass
    class Slot(Box):
        """reachable as jsonmodels.Shelf.Slot, __qualname__ 'Shelf.Slot'"""


class Foreign:
    """a third-party style type (no serializer base); registered below"""

    def __init__(self, v):
        self.v = v

    def __eq__(self, other):
        return type(other) is Foreign and self.v == other.v

    def __repr__(self):
        return f"Foreign({self.v!r})"


JSONSerializableTypeRegistry().register(
    Foreign,
    lambda o: {JSON_TYPE_NAME: get_full_class_name(Foreign), "v": to_json(o.v)},
    lambda d, **kw: Foreign(from_json(d["v"])),
)


class ForeignSub(Foreign):
    """a subclass of a registered third-party type, registered on its own AFTER its base, with one more field"""

    def __init__(self, v, w=7):
        super().__init__(v)
        self.w = w

    def __eq__(self, other):
        return type(other) is ForeignSub and self.v == other.v and self.w == other.w

    def __repr__(self):
        return f"ForeignSub({self.v!r}, {self.w!r})"


JSONSerializableTypeRegistry().register(
    ForeignSub,
    lambda o: {JSON_TYPE_NAME: get_full_class_name(ForeignSub), "v": to_json(o.v), "w": o.w},
    lambda d, **kw: ForeignSub(from_json(d["v"]), d["w"]),
)


class PlainClass:
    """not serialisable, not registered"""


class NoFromJson(SubclassJSONSerializer):
    """a serializer subclass: control group of C19 (deserialisable)"""

    @classmethod
    def _from_json(cls, data, **kwargs):
        return cls()


def a_function():
    return 1


an_instance = PlainClass()
# module attributes that are not classes AND not hashable
a_list = [Box]
a_dict = {"Box": Box}
a_set = {1, 2}
a_value_instance = Box(1)  # a dataclass with value equality: instances are unhashable


class Level(enum.IntEnum):
    """a registered third-party type that is ALSO an int (a JSON leaf type): the registry must still be asked"""
    LOW = 1
    HIGH = 2


JSONSerializableTypeRegistry().register(
    Level,
    lambda o: {JSON_TYPE_NAME: get_full_class_name(Level), "v": int(o)},
    lambda d, **kw: Level(d["v"]),
)


class Tagline(str):
    """a registered third-party type that is also a str"""


JSONSerializableTypeRegistry().register(
    Tagline,
    lambda o: {JSON_TYPE_NAME: get_full_class_name(Tagline), "v": str(o)},
    lambda d, **kw: Tagline(d["v"]),
)


class Bag(list, SubclassJSONSerializer):
    """a serialisable class that is also a list"""

    def to_json(self):
        return {**super().to_json(), "items": to_json(list(self))}

    @classmethod
    def _from_json(cls, data, **kwargs):
        return cls(from_json(data["items"]))
