"""Second module with the same simple class name as models.jsonmodels.Point."""
from __future__ import annotations

from dataclasses import dataclass

from krrood.adapters.json_serializer import SubclassJSONSerializer


@dataclass
class Point(SubclassJSONSerializer):
    lat: float = 0.0
    lon: float = 0.0

    def to_json(self):
        d = super().to_json()
        d["lat"] = self.lat
        d["lon"] = self.lon
        return d

    @classmethod
    def _from_json(cls, data, **kwargs):
        return cls(lat=data["lat"], lon=data["lon"])
