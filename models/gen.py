"""
Generator of dataclass model modules from a model AST (used by C17, C06, C05).

Model   = (future_annotations: bool, classes: tuple[ClassSpec])       -- declaration order = tuple order
ClassSpec = (name, base_name|None, fields: tuple[FieldSpec])
FieldSpec = (field_name, kind, target|None)
kinds: int str float bool opt_int opt_str enum opt_enum datetime list_int set_str list_str
       ref opt_ref list_ref set_ref seq_ref type_ref   (target = class name)
A field name starting with "_" is private. String forward references are used whenever the target is declared later
(or always, under `from __future__ import annotations`).
"""
from __future__ import annotations

import importlib
import sys
import types

SCALAR = {"int": "int", "str": "str", "float": "float", "bool": "bool", "opt_int": "Optional[int]",
          "opt_str": "Optional[str]", "enum": "Color", "opt_enum": "Optional[Color]", "datetime": "datetime",
          "list_int": "List[int]", "set_str": "Set[str]", "list_str": "List[str]",
          "opt_datetime": "Optional[datetime]", "ext_enum": "HTTPStatus", "opt_ext_enum": "Optional[HTTPStatus]",
          "opt_float": "Optional[float]", "opt_bool": "Optional[bool]"}
DEFAULT = {"int": "0", "str": "''", "float": "0.0", "bool": "False", "opt_int": "None", "opt_str": "None",
           "enum": "Color.RED", "opt_enum": "None", "datetime": "field(default_factory=lambda: datetime(2020, 1, 1))",
           "list_int": "field(default_factory=list)", "set_str": "field(default_factory=set)",
           "list_str": "field(default_factory=list)",
           "opt_datetime": "None", "ext_enum": "HTTPStatus.OK", "opt_ext_enum": "None", "opt_float": "None", "opt_bool": "None",
           "ref": "None", "opt_ref": "None", "list_ref": "field(default_factory=list)",
           "set_ref": "field(default_factory=set)", "seq_ref": "field(default_factory=list)", "type_ref": "None"}
REL = {"ref": "{t}", "opt_ref": "Optional[{t}]", "list_ref": "List[{t}]", "set_ref": "Set[{t}]",
       "seq_ref": "Sequence[{t}]", "type_ref": "Type[{t}]"}


def order_for_declaration(classes):
    """a base class must be declared before its subclasses: stable topological order of the given order"""
    names = [c[0] for c in classes]
    by = {c[0]: c for c in classes}
    out, done = [], set()

    def visit(n):
        if n in done:
            return
        b = by[n][1]
        if b is not None:
            visit(b)
        done.add(n)
        out.append(by[n])
    for n in names:
        visit(n)
    return out


def source(model, extra_header=""):
    future, classes = model
    lines = []
    if future:
        lines.append("from __future__ import annotations")
    lines += ["from dataclasses import dataclass, field", "from datetime import datetime", "from enum import Enum",
              "from http import HTTPStatus",
              "from typing import List, Optional, Set, Sequence, Type", extra_header, "",
              "class Color(Enum):", "    RED = 1", "    BLUE = 2", ""]
    declared = set()
    for name, base, fields in order_for_declaration(classes):
        lines.append("@dataclass(eq=False)")
        lines.append(f"class {name}({base}):" if base else f"class {name}:")
        if not fields:
            lines.append("    pass")
        for fname, kind, target in fields:
            if kind in SCALAR:
                ann = SCALAR[kind]
            else:
                t = target if (target in declared and not future) else f"'{target}'" if not future else target
                ann = REL[kind].format(t=t)
                if not future and t.startswith("'") and kind != "ref":
                    ann = REL[kind].format(t=t)
            lines.append(f"    {fname}: {ann} = {DEFAULT[kind]}")
        declared.add(name)
        lines.append("")
    return "\n".join(lines) + "\n"


_COUNTER = [0]


def load(model, prefix="vgen", extra_header=""):
    """exec the model's source as a fresh module registered in sys.modules; returns (module, {name: class})"""
    _COUNTER[0] += 1
    modname = f"{prefix}_{_COUNTER[0]}"
    src = source(model, extra_header)
    mod = types.ModuleType(modname)
    mod.__file__ = f"<generated {modname}>"
    sys.modules[modname] = mod
    try:
        exec(compile(src, mod.__file__, "exec", dont_inherit=True), mod.__dict__)  # do not inherit this file's __future__ flags
    except Exception:
        sys.modules.pop(modname, None)
        raise
    classes = {c[0]: getattr(mod, c[0]) for c in model[1]}
    return mod, classes, src


def load_source(src, names, prefix="vsrc"):
    """exec a handwritten model source as a fresh module; returns (module, {name: class}, src)"""
    _COUNTER[0] += 1
    modname = f"{prefix}_{_COUNTER[0]}"
    mod = types.ModuleType(modname)
    mod.__file__ = f"<handwritten {modname}>"
    sys.modules[modname] = mod
    try:
        exec(compile(src, mod.__file__, "exec", dont_inherit=True), mod.__dict__)
    except Exception:
        sys.modules.pop(modname, None)
        raise
    return mod, {n: getattr(mod, n) for n in names}, src


def unload(mod):
    sys.modules.pop(mod.__name__, None)
