"""
Harness-owned world for the EQL checks (C01 C02 C03 C10): plain dataclasses, a predicate, a symbolic function.

`Item` is an ordinary dataclass (value equality, unhashable) so that "value-equal but distinct objects" really
are `==`; `nxt` is excluded from comparison so that cyclic `nxt` chains do not recurse in `==`.
"""
from __future__ import annotations

from dataclasses import dataclass, field
from typing import List, Optional

from krrood.entity_query_language.predicate import Predicate, symbolic_function

LOG = []  # event log used by the laziness check (C10); other checks ignore it


@dataclass
class Item:
    name: str = field(compare=False)
    a: int = 0
    b: int = 0
    flag: bool = False
    tags: List[int] = field(default_factory=list)
    vals: List[int] = field(default_factory=list)
    nxt: Optional["Item"] = field(default=None, compare=False, repr=False)

    def m(self, k):
        return self.a + k

    def ts(self):
        """a PARTIALLY ordered value: the set of tags ({0} and {1} are incomparable, {1} < {1, 2})"""
        return frozenset(self.tags)

    def fv(self):
        """a float that is NaN for the item with a == 1 and b == 0 (NaN is incomparable with everything)"""
        return float("nan") if (self.a, self.b) == (1, 0) else float(self.a + self.b)

    def __repr__(self):
        return self.name


@dataclass(repr=False)
class SubItem(Item):
    pass


@dataclass
class SameA(Predicate):
    """Predicate subclass: both items have the same `a`."""
    p: Item
    q: Item

    def __call__(self):
        if _ARMED[0]:
            LOG.append(("call", "SameA"))
        return self.p.a == self.q.a


@dataclass
class AIs(Predicate):
    p: Item
    k: int

    def __call__(self):
        if _ARMED[0]:
            LOG.append(("call", "AIs"))
        return self.p.a == self.k


@symbolic_function
def b_is(item, k):
    if _ARMED[0]:
        LOG.append(("call", "b_is"))
    return item.b == k


@dataclass(repr=False)
class FalsyItem(Item):
    """an entity whose Python truth value is False unless b == 1 (like an empty container)"""

    def __bool__(self):
        return self.b == 1


@dataclass(repr=False)
class FalsySubItem(SubItem):
    def __bool__(self):
        return self.b == 1


_WATCHED = frozenset(("a", "b", "flag", "tags", "vals", "nxt", "m", "b0", "b1", "b2", "b3", "b4", "b5", "b6", "b7", "k", "tag", "main",
                      "items", "sub"))
_ARMED = [False]


class _Logging:
    """logs every read of a data attribute / method while the log is armed (C10)"""

    def __getattribute__(self, name):
        if name in _WATCHED and _ARMED[0]:
            LOG.append(("read", object.__getattribute__(self, "name"), name))
        return object.__getattribute__(self, name)

    @property
    def lazy(self):
        """the tags, produced lazily: a fresh one-shot generator that logs every element it hands out"""
        name = object.__getattribute__(self, "name")
        tags = object.__getattribute__(self, "tags")

        def gen():
            for i, v in enumerate(tags):
                if _ARMED[0]:
                    LOG.append(("pull", "inner:" + name, i))
                yield v
        return gen()


@dataclass(repr=False, eq=False)
class LoggedItem(_Logging, Item):
    pass


@dataclass(repr=False, eq=False)
class LoggedSubItem(_Logging, SubItem):
    pass


def make_items(spec, falsy=False, logged=False):
    """spec: list of (name, a, b, subclass?) -> fresh objects with derived flag/tags/vals and a cyclic nxt chain."""
    items = []
    for name, a, b, sub in spec:
        cls = (FalsySubItem if sub else FalsyItem) if falsy else (SubItem if sub else Item)
        if logged:
            cls = LoggedSubItem if sub else LoggedItem
        items.append(cls(name=name, a=a, b=b, flag=bool(b), tags=[a] * b + ([a + b] if a else []), vals=[a + 2 * b, 7]))
    for i, it in enumerate(items):
        it.nxt = items[(i + 1) % len(items)] if items else None
    return items


# the universe: every (a,b) valuation, one value-equal twin of P00, P10 is a SubItem
UNIVERSE = [("P00", 0, 0, False), ("P01", 0, 1, False), ("P10", 1, 0, True), ("P11", 1, 1, False),
            ("P00t", 0, 0, False)]
