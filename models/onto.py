"""
Harness-owned ontology model (declaration style of the documentation / test dataset): process-global descriptors.
Import once per process, then call reset_graph().
"""
from __future__ import annotations

from dataclasses import dataclass, field

from typing_extensions import Set, List, Type

from krrood.class_diagrams.utils import Role
from krrood.entity_query_language.predicate import Symbol
from krrood.ontomatic.property_descriptor.mixins import HasInverseProperty, TransitiveProperty
from krrood.ontomatic.property_descriptor.property_descriptor import PropertyDescriptor


@dataclass
class VCompany(Symbol):
    name: str
    members: Set[VPerson] = field(default_factory=set)
    sub_organization_of: List[VCompany] = field(default_factory=list)

    def __hash__(self):
        return hash(self.name)

    def __repr__(self):
        return self.name


@dataclass
class VPerson(Symbol):
    name: str
    works_for: VCompany = None
    member_of: List[VCompany] = field(default_factory=list)

    def __hash__(self):
        return hash(self.name)

    def __repr__(self):
        return self.name


@dataclass
class VQuietCompany(VCompany):
    """a company whose truth value is False (like an empty container)"""

    def __bool__(self):
        return False

    def __hash__(self):
        return hash(self.name)


@dataclass
class VQuietPerson(VPerson):
    def __bool__(self):
        return False

    def __hash__(self):
        return hash(self.name)


@dataclass
class VCEO(Role[VPerson], Symbol):
    person: VPerson
    head_of: VCompany = None

    def __hash__(self):
        return hash(("ceo", self.person.name))

    def __repr__(self):
        return "ceo_" + self.person.name


@dataclass
class VMember(PropertyDescriptor, HasInverseProperty):
    @classmethod
    def get_inverse(cls) -> Type[VMemberOf]:
        return VMemberOf


@dataclass
class VMemberOf(PropertyDescriptor, HasInverseProperty):
    @classmethod
    def get_inverse(cls) -> Type[VMember]:
        return VMember


@dataclass
class VWorksFor(VMemberOf):
    pass


@dataclass
class VHeadOf(VWorksFor):
    pass


@dataclass
class VSubOrganizationOf(PropertyDescriptor, TransitiveProperty):
    ...


@dataclass
class VUnit(Symbol):
    """transitive property with a NON-transitive inverse and a sub-property"""
    name: str
    part_of: List[VUnit] = field(default_factory=list)
    has_part: List[VUnit] = field(default_factory=list)
    directly_part_of: List[VUnit] = field(default_factory=list)

    def __hash__(self):
        return hash(self.name)

    def __repr__(self):
        return self.name


@dataclass
class VHasPart(PropertyDescriptor, HasInverseProperty):
    @classmethod
    def get_inverse(cls) -> Type[VPartOf]:
        return VPartOf


@dataclass
class VPartOf(PropertyDescriptor, TransitiveProperty, HasInverseProperty):
    @classmethod
    def get_inverse(cls) -> Type[VHasPart]:
        return VHasPart


@dataclass
class VDirectlyPartOf(VPartOf):
    pass


@dataclass
class VOrg(Symbol):
    name: str

    def __hash__(self):
        return hash(self.name)

    def __repr__(self):
        return self.name


@dataclass
class VWorker(Symbol):
    """declares the SUB-property; the super-property's field only exists on the subclass below"""
    name: str
    employer: VOrg = None

    def __hash__(self):
        return hash(self.name)

    def __repr__(self):
        return self.name


@dataclass
class VContractor(VWorker):
    affiliations: List[VOrg] = field(default_factory=list)

    def __hash__(self):
        return hash(self.name)


@dataclass
class VAffiliatedWith(PropertyDescriptor):
    ...


@dataclass
class VEmployedBy(VAffiliatedWith):
    ...


@dataclass
class VRegion(Symbol):
    """one transitive descriptor class attached to fields of TWO domain classes (VRegion.part_of, VCity.located_in)"""
    name: str
    within: List[VRegion] = field(default_factory=list)

    def __hash__(self):
        return hash(self.name)

    def __repr__(self):
        return self.name


@dataclass
class VCity(Symbol):
    name: str
    located_in: List[VRegion] = field(default_factory=list)

    def __hash__(self):
        return hash(self.name)

    def __repr__(self):
        return self.name


@dataclass
class VWithin(PropertyDescriptor, TransitiveProperty):
    ...


VRegion.within = VWithin(VRegion, "within")
VCity.located_in = VWithin(VCity, "located_in")

VWorker.employer = VEmployedBy(VWorker, "employer")
VContractor.affiliations = VAffiliatedWith(VContractor, "affiliations")

VUnit.part_of = VPartOf(VUnit, "part_of")
VUnit.has_part = VHasPart(VUnit, "has_part")
VUnit.directly_part_of = VDirectlyPartOf(VUnit, "directly_part_of")

VPerson.works_for = VWorksFor(VPerson, "works_for")
VPerson.member_of = VMemberOf(VPerson, "member_of")
VCEO.head_of = VHeadOf(VCEO, "head_of")
VCompany.members = VMember(VCompany, "members")
VCompany.sub_organization_of = VSubOrganizationOf(VCompany, "sub_organization_of")

# declared metadata, as data, for the reference closure (oracles/closure.py reads only this)
FIELDS = {
    # (class, field) -> (descriptor class, single-valued?)
    (VPerson, "works_for"): (VWorksFor, True),
    (VPerson, "member_of"): (VMemberOf, False),
    (VCEO, "head_of"): (VHeadOf, True),
    (VCompany, "members"): (VMember, False),
    (VCompany, "sub_organization_of"): (VSubOrganizationOf, False),
    (VWorker, "employer"): (VEmployedBy, True),
    (VContractor, "affiliations"): (VAffiliatedWith, False),
    (VUnit, "part_of"): (VPartOf, False),
    (VUnit, "has_part"): (VHasPart, False),
    (VUnit, "directly_part_of"): (VDirectlyPartOf, False),
    (VRegion, "within"): (VWithin, False),
    (VCity, "located_in"): (VWithin, False),
}
ROLE_TAKER_FIELD = {VCEO: "person"}


def reset_graph():
    from krrood.entity_query_language.symbol_graph import SymbolGraph
    SymbolGraph().clear()
    return SymbolGraph()
