"""Diamond Symbol hierarchy for the registry checks (C13, C20)."""
from __future__ import annotations

from dataclasses import dataclass

from krrood.entity_query_language.predicate import Symbol


@dataclass(eq=False)
class HA(Symbol):
    k: int = 0


@dataclass(eq=False)
class HB(HA):
    pass


@dataclass(eq=False)
class HC(HA):
    pass


@dataclass(eq=False)
class HD(HB, HC):
    """a container-like Symbol: its instances (and those of HE) are FALSY, like an empty collection"""

    def __len__(self):
        return 0


@dataclass(eq=False)
class HE(HD):
    """below the diamond"""
    pass


TYPES = {"A": HA, "B": HB, "C": HC, "D": HD, "E": HE}
