"""
Harness-owned curated ORM model for the round-trip checks (C04, C05, C07). Reproduces every KIND of mapping the
repository's own data set uses: scalars, Optional, Enum, datetime, JSON list, joined inheritance, optional reference,
collection, self reference, self collection, alternative mapping (also nested in collections and with a back
reference), an alternatively mapped parent with a normally mapped child, a TypeDecorator-mapped value class and a
Type[...]-valued field.
"""
from __future__ import annotations

from dataclasses import dataclass, field
from datetime import datetime
from enum import Enum
from typing import Set, List, Optional, Type

from sqlalchemy import types, TypeDecorator

from krrood.ormatic.dao import AlternativeMapping


class OKind(Enum):
    A = 1
    B = 2


@dataclass(eq=False)
class OMoney:
    """value class stored through a TypeDecorator"""
    amount: int = 0


class OMoneyType(TypeDecorator):
    impl = types.Integer
    cache_ok = True

    def process_bind_param(self, value, dialect):
        return None if value is None else value.amount

    def process_result_value(self, value, dialect):
        return None if value is None else OMoney(value)


@dataclass(eq=False)
class OItem:
    n: int = 0
    s: Optional[str] = None
    kind: OKind = OKind.A
    tags: List[str] = field(default_factory=list)
    when: datetime = field(default_factory=lambda: datetime(2020, 1, 1))
    price: Optional[OMoney] = None

    def __len__(self):
        # container-like: an item without tags is falsy ("is None" and "is falsy" must not be confused by the mapper)
        return len(self.tags)


@dataclass(eq=False)
class OSubItem(OItem):
    f: float = 0.0


@dataclass(eq=False)
class OHolder:
    name: str = ""
    one: Optional[OItem] = None
    many: List[OItem] = field(default_factory=list)
    back: Optional[OHolder] = None
    peers: List[OHolder] = field(default_factory=list)
    vec: Optional[OVec] = None

    def __len__(self):
        # container-like: a holder whose `many` is empty is falsy
        return len(self.many)


@dataclass(eq=False)
class OSubHolder(OHolder):
    extra: int = 0


@dataclass(eq=False)
class OVec:
    """alternatively mapped"""
    x: float = 0.0
    y: float = 0.0
    owner: Optional[OHolder] = None

    def __bool__(self):
        # the zero vector is falsy
        return bool(self.x or self.y)


@dataclass
class OVecMapping(AlternativeMapping[OVec]):
    x: float
    y: float
    owner: Optional[OHolder]

    @classmethod
    def create_instance(cls, obj: OVec):
        return cls(obj.x, obj.y, obj.owner)

    def create_from_dao(self) -> OVec:
        return OVec(self.x, self.y, self.owner)


@dataclass(eq=False)
class OCarrier:
    vec: Optional[OVec] = None
    vecs: List[OVec] = field(default_factory=list)
    owner: Optional[OHolder] = None
    item_type: Type[OItem] = OItem


@dataclass(eq=False)
class OAltParent:
    base: float = 0.0
    items: List[OItem] = field(default_factory=list)


@dataclass(eq=False)
class OAltChild(OAltParent):
    level: float = 0.0
    favourite: Optional[OItem] = None


@dataclass(eq=False)
class OAltGrand(OAltChild):
    """TWO levels below the alternatively mapped parent"""
    extra: int = 0


@dataclass
class OAltParentMapping(AlternativeMapping[OAltParent]):
    derived: str
    items: List[OItem]

    @classmethod
    def create_instance(cls, obj: OAltParent):
        return cls(str(obj.base), obj.items)

    def create_from_dao(self) -> OAltParent:
        return OAltParent(float(self.derived), self.items)


@dataclass(eq=False)
class OAltGroup:
    """several objects of the alternatively mapped hierarchy in one conversion"""
    kids: List[OAltParent] = field(default_factory=list)
    first: Optional[OAltParent] = None


@dataclass(eq=False)
class OPoint:
    x: float = 0.0
    y: float = 0.0


@dataclass(eq=False)
class OPoly:
    """alternatively mapped; its mapping BUILDS fresh mapped objects while converting"""
    name: str = ""
    coords: list = field(default_factory=list)


@dataclass
class OPolyMapping(AlternativeMapping[OPoly]):
    name: str
    points: List[OPoint]

    @classmethod
    def create_instance(cls, obj: OPoly):
        return cls(obj.name, [OPoint(float(x), float(y)) for x, y in obj.coords])

    def create_from_dao(self) -> OPoly:
        return OPoly(self.name, [(p.x, p.y) for p in self.points])


@dataclass(eq=False)
class ODrawing:
    title: str = ""
    lines: List[OPoly] = field(default_factory=list)
    best: Optional[OPoly] = None


@dataclass(eq=False)
class OTeam:
    """alternatively mapped; many-to-many with the normally mapped OMember in both directions"""
    name: str = ""
    members: List[OMember] = field(default_factory=list)
    rival: Optional[OTeam] = None


@dataclass(eq=False)
class OBag:
    """a SET of mapped objects"""
    label: str = ""
    things: Set[OItem] = field(default_factory=set)


@dataclass(eq=False)
class OMember:
    name: str = ""
    teams: List[OTeam] = field(default_factory=list)


@dataclass
class OTeamMapping(AlternativeMapping[OTeam]):
    name: str
    members: List[OMember]
    rival: Optional[OTeam]

    @classmethod
    def create_instance(cls, obj: OTeam):
        return cls(obj.name, obj.members, obj.rival)

    def create_from_dao(self) -> OTeam:
        return OTeam(self.name, self.members, self.rival)


CLASSES = [OItem, OSubItem, OHolder, OSubHolder, OVec, OCarrier, OAltParent, OAltChild, OAltGrand, OAltGroup, OBag, OPoint, OPoly, ODrawing, OTeam, OMember]
ALTERNATIVE_MAPPINGS = [OVecMapping, OAltParentMapping, OPolyMapping, OTeamMapping]
TYPE_MAPPINGS = {OMoney: OMoneyType}
