"""A module that exists but whose import fails with a plain ImportError (C19)."""
from os import a_name_that_does_not_exist  # noqa
