"""A module that exists but whose import fails on a missing dependency (C19)."""
import a_backend_that_is_not_installed_anywhere  # noqa
