"""Symbol classes for the pattern-matching check (C11). Hashable by identity (eq=False)."""
from __future__ import annotations

from dataclasses import dataclass, field
from typing import List, Optional

from krrood.entity_query_language.predicate import Symbol


@dataclass(eq=False)
class MCore(Symbol):
    k: int = 0
    name: str = ""

    def __repr__(self):
        return self.name


@dataclass(eq=False)
class MPart(Symbol):
    k: int = 0
    name: str = ""
    core: MCore = None

    def __repr__(self):
        return self.name


@dataclass(eq=False)
class MItem(Symbol):
    k: int = 0
    sub: MPart = None
    name: str = ""

    def __repr__(self):
        return self.name


@dataclass(eq=False)
class MSubItem(MItem):
    pass


@dataclass(eq=False)
class MBox(Symbol):
    tag: int = 0
    main: MItem = None
    items: List[MItem] = field(default_factory=list)
    name: str = ""
    labels: List[str] = field(default_factory=list)  # a collection of builtin values

    def __repr__(self):
        return self.name
